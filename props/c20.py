"""C20 — rasterisation marks exactly the bins a geometry covers, on the
template's axes.  Real code: geometry/operations.py rasterize; arrays
get_coord_index(raise_error=False); conversion.geometry_to_shapely."""

from __future__ import annotations

from vf import h
from vf.plan import Ob

h.setup(
    fakes=("pydantic", "shp"),
    modules=("soundevent.data", "soundevent.geometry.operations", "soundevent.arrays"),
    real_first=("numpy", "xarray", "rasterio.features", "scipy.sparse.csgraph", "matplotlib.pyplot"),
)

from soundevent import data  # noqa: E402
from soundevent.arrays import dimensions as D  # noqa: E402
from soundevent.geometry import operations as ops  # noqa: E402

if h.MODEL:
    from models import npl, rio, xrl

    ops.np = npl.numpy
    ops.xr = xrl.xarray
    ops.features = rio.features
    D.np = npl.numpy
    D.xr = xrl.xarray
    NP, XR = npl.numpy, xrl.xarray
else:
    import numpy as NP
    import xarray as XR


def _template(t0, dt, f0, df, nt, nf, order):
    ts = [t0 + i * dt for i in range(nt)]
    fs = [f0 + j * df for j in range(nf)]
    if order == "tf":
        base = [[7.0 + i + 10 * j for j in range(nf)] for i in range(nt)]
        arr = XR.DataArray(NP.array(base), dims=("time", "frequency"),
                           coords={"time": NP.array(ts), "frequency": NP.array(fs)})
    else:
        base = [[7.0 + i + 10 * j for i in range(nt)] for j in range(nf)]
        arr = XR.DataArray(NP.array(base), dims=("frequency", "time"),
                           coords={"frequency": NP.array(fs), "time": NP.array(ts)})
    return arr, ts, fs


def _bin(xs, v):
    """bin index with clamping: below -> 0, above -> size, else the bin containing v"""
    if v < xs[0]:
        return 0
    if v > xs[-1]:
        return len(xs)
    k = 0
    for j, x in enumerate(xs):
        if x <= v:
            k = j
    return k


def _cells(out, nt, nf):
    d = out.data
    d = d.tolist() if hasattr(d, "tolist") else d
    return [[d[i][j] for j in range(nf)] for i in range(nt)]


def _close(a, b):
    if h.MODEL:
        return a == b
    return abs(float(a) - float(b)) <= 1e-6 * max(1.0, abs(float(b)))


def ob_raster(t0: float, dt: float, f0: float, df: float,
              a0: float, a1: float, b0: float, b1: float,
              v1: float, v2: float, fill: float, scalar_value: bool) -> bool:
    """
    pre: 0 <= t0 <= 100 and 0.01 <= dt <= 100 and 0 <= f0 <= 1000 and 1 <= df <= 1000
    pre: 0 <= a0 <= a1 <= 1000 and 0 <= b0 <= b1 <= 10000
    pre: -10 <= v1 <= 10 and -10 <= v2 <= 10 and -10 <= fill <= 10
    post: _
    """
    nt, nf, order, kind = h.P("nt"), h.P("nf"), h.P("order"), h.P("kind")
    # second geometry (PARAMS['second']): a concrete box over the first time bin and every frequency, placed
    # 'before' or 'after' the symbolic one, so that 'later geometries overwrite earlier ones' is exercised
    second = h.P("second")
    two = second is not None
    arr, ts, fs = _template(t0, dt, f0, df, nt, nf, order)
    c0, c1, e0, e1 = t0, t0 + dt, 0.0, 5000000.0
    if kind == "box":
        geoms = [data.BoundingBox(coordinates=[a0, b0, a1, b1])]
        spans = [(a0, a1, b0, b1)]
        if two:
            geoms.append(data.BoundingBox(coordinates=[c0, e0, c1, e1]))
            spans.append((c0, c1, e0, e1))
    else:
        geoms = [data.TimeInterval(coordinates=[a0, a1])]
        spans = [(a0, a1, 0, 5000000)]
        if two:
            geoms.append(data.BoundingBox(coordinates=[c0, e0, c1, e1]))
            spans.append((c0, c1, e0, e1))
    vals = [v1, v2][: len(geoms)]
    if second == "before":
        geoms, spans = geoms[::-1], spans[::-1]
    if second == "both":
        # fixed box, symbolic geometry, the same fixed box again; first and last share their value: the last one
        # must still overwrite what the middle one burnt
        geoms = [geoms[1], geoms[0], data.BoundingBox(coordinates=[c0, e0, c1, e1])]
        spans = [spans[1], spans[0], spans[1]]
        vals = [v2, v1, v2]
    values = v1 if scalar_value else vals
    if scalar_value:
        vals = [v1] * len(geoms)
    out = ops.rasterize(geoms, arr, values=values, fill=fill, dtype=NP.float64)
    if tuple(out.dims) != ("time", "frequency"):
        return h.fail("result is not laid out as (time, frequency)")
    got_t = out.coords["time"].data
    got_f = out.coords["frequency"].data
    got_t = got_t.tolist() if hasattr(got_t, "tolist") else list(got_t)
    got_f = got_f.tolist() if hasattr(got_f, "tolist") else list(got_f)
    if len(got_t) != nt or len(got_f) != nf:
        return h.fail("result does not carry the template's coordinates")
    for x, y in zip(got_t, ts):
        if not _close(x, y):
            return h.fail("result does not carry the template's coordinates")
    for x, y in zip(got_f, fs):
        if not _close(x, y):
            return h.fail("result does not carry the template's coordinates")
    cells = _cells(out, nt, nf)
    burnt = 0
    for i in range(nt):
        for j in range(nf):
            want = fill
            for (s, e, lo, hi), v in zip(spans, vals):
                ib, ie = _bin(ts, s), _bin(ts, e)
                jb, je = _bin(fs, lo), _bin(fs, hi)
                if ib <= i < ie and jb <= j < je:
                    want = v
                    burnt += 1
            if not _close(cells[i][j], want):
                return h.fail("a cell does not hold the value of the last geometry covering its bin (or the fill)")
    return h.done(some=(burnt > 0), none=(burnt == 0), overwritten=(burnt > nt * nf))


def ob_raster_errors(t0: float, dt: float, a0: float, a1: float, extra: int) -> bool:
    """
    pre: 0 <= t0 <= 100 and 0.01 <= dt <= 100 and 0 <= a0 <= a1 <= 1000
    pre: 0 <= extra <= 2
    post: _
    """
    arr, ts, fs = _template(t0, dt, 0.0, 100.0, 2, 2, "ft")
    geoms = [data.TimeInterval(coordinates=[a0, a1])]
    values = [1.0] * (0 if extra == 0 else 1 + extra)
    try:
        ops.rasterize(geoms, arr, values=values)
    except ValueError:
        return h.done(rejected=True)
    return h.fail("value list of another length than the geometry list accepted")


def ob_all_touched(t0: float, dt: float, f0: float, df: float, a0: float, a1: float, b0: float, b1: float) -> bool:
    """
    pre: 0 <= t0 <= 100 and 0.01 <= dt <= 100 and 0 <= f0 <= 1000 and 1 <= df <= 1000
    pre: 0 <= a0 <= a1 <= 1000 and 0 <= b0 <= b1 <= 10000
    post: _
    """
    nt, nf, order = h.P("nt"), h.P("nf"), h.P("order")
    arr, ts, fs = _template(t0, dt, f0, df, nt, nf, order)
    g = [data.BoundingBox(coordinates=[a0, b0, a1, b1])]
    plain = _cells(ops.rasterize(g, arr, values=2.0, fill=-1.0, dtype=NP.float64), nt, nf)
    touched = _cells(ops.rasterize(g, arr, values=2.0, fill=-1.0, dtype=NP.float64, all_touched=True), nt, nf)
    more = False
    for i in range(nt):
        for j in range(nf):
            if _close(plain[i][j], 2.0) and not _close(touched[i][j], 2.0):
                return h.fail("all_touched removes a cell")
            if not (_close(touched[i][j], 2.0) or _close(touched[i][j], -1.0)):
                return h.fail("all_touched writes a value that is neither the geometry's nor the fill")
            if _close(touched[i][j], 2.0) and not _close(plain[i][j], 2.0):
                more = True
    return h.done(any=True, more=more)


def plan():
    q = ("quick", "thorough")
    obs = []
    for (nt, nf) in ((1, 1), (2, 2), (2, 3), (3, 2), (3, 3), (1, 3)):
        for order in ("ft", "tf"):
            for kind in ("box", "interval"):
                quick = ((nt, nf) == (2, 3) and kind == "box") or ((nt, nf, order) == (2, 2, "ft")) or (
                    (nt, nf) == (3, 2) and order == "tf" and kind == "interval")
                for second in (None, "after", "before"):
                    qk = quick and (second is None or (nt, nf, order, kind, second) == (2, 3, "ft", "box", "after"))
                    obs.append(Ob("raster-%dx%d-%s-%s%s" % (nt, nf, order, kind, "-2nd" + second if second else ""),
                                  ob_raster, "real", 2400,
                                  dict(nt=nt, nf=nf, order=order, kind=kind, second=second),
                                  q if qk else ("thorough",),
                                  twins=("some", "none") if second is None else ("overwritten",), twin_timeout=300))
    for (nt, nf, order, kind) in ((2, 2, "ft", "box"), (2, 3, "tf", "interval"), (3, 3, "ft", "box")):
        obs.append(Ob("raster-%dx%d-%s-%s-sandwich" % (nt, nf, order, kind), ob_raster, "real", 2400,
                      dict(nt=nt, nf=nf, order=order, kind=kind, second="both"), q if nt == 2 and nf == 2 else ("thorough",),
                      twins=("overwritten",), twin_timeout=300))
    obs.append(Ob("value-list-length", ob_raster_errors, "real", 300, {}, q, twins=("rejected",)))
    for (nt, nf, order) in ((2, 2, "ft"), (2, 3, "tf"), (3, 3, "ft")):
        obs.append(Ob("all-touched-%dx%d-%s" % (nt, nf, order), ob_all_touched, "real", 2400,
                      dict(nt=nt, nf=nf, order=order), q if nt == 2 else ("thorough",), twins=("any",),
                      twin_timeout=300))
    return obs


INFO = dict(
    functions=[
        "soundevent.geometry.operations.rasterize (value broadcasting, length check, transform_coordinates, out_shape, "
        "transpose, dims/coords of the result)",
        "soundevent.arrays.dimensions.get_coord_index(raise_error=False), get_dim_range",
        "soundevent.geometry.conversion: bounding_box_to_shapely, time_interval_to_shapely",
    ],
    bounds="templates of 1..3 time bins x 1..3 frequency bins, both dimension orders, regular symbolic axes; 1-2 "
    "geometries (one BoundingBox / TimeInterval with symbolic coordinates inside and beyond the axes, optionally a "
    "fixed box before or after it); symbolic values and "
    "fill; scalar and list values; exact real arithmetic",
    trusted_base=[
        "models/rio.py: rasterize of axis-aligned rectangles = cells whose centre lies inside, last shape wins, "
        "out_shape=(rows, cols); all_touched = solver-chosen superset",
        "models/shp.py (box, transform keeps kind), models/xrl.py, models/npl.py, models/pyd.py",
        "CrossHair 0.0.110 + z3 (Real)",
    ],
    outside=["non-rectangular geometries (GDAL scan conversion)", "dtype casting of the raster", "which edge-adjacent "
             "cells all_touched adds"],
)
