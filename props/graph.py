"""Shared harness helpers for the AOEF / schema properties: a builder of
bounded soundevent object graphs from symbolic choice inputs, a field-by-field
comparator driven by ``model_fields`` of the data classes, the save/load cycle,
and a walker over the written document."""

from __future__ import annotations

from vf import h

# --------------------------------------------------------------------------
# save / load cycle


class MemPath:
    """in-memory stand-in for the document path (file I/O is not the subject)"""

    suffix = ".json"

    def __init__(self, is_dir=False):
        self.text = None
        self.writes = 0
        self.is_dir = is_dir

    @property
    def parent(self):
        return MemPath(is_dir=True)

    def exists(self):
        return self.is_dir or self.text is not None

    def __truediv__(self, other):
        # the directory holding the document, joined with something: an ordinary path from here on
        import pathlib

        if not self.is_dir:
            raise TypeError("MemPath file / x")
        return pathlib.Path("/memdoc") / other

    def mkdir(self, parents=False):
        return None

    def write_text(self, text):
        self.text = text
        self.writes += 1

    def read_text(self):
        return self.text


def install_mem_io():
    """model mode: make soundevent.io use MemPath for the document"""
    import soundevent.io.aoef as aoef
    import soundevent.io.utils as utils

    def PathF(p):
        if isinstance(p, MemPath):
            return p
        import pathlib

        return pathlib.Path(p)

    aoef.Path = PathF
    utils.Path = PathF


def cycle(obj, audio_dir_save=None, audio_dir_load=None, want_doc=False):
    """io.save + io.load with a fresh call; returns loaded (and the document)"""
    from soundevent import io

    if h.MODEL:
        doc = MemPath()
        io.save(obj, doc, audio_dir=audio_dir_save)
        loaded = io.load(doc, audio_dir=audio_dir_load)
        if want_doc:
            return loaded, doc.text.payload
        return loaded
    import json
    import os
    import tempfile

    d = tempfile.mkdtemp(prefix="verif_aoef_")
    p = os.path.join(d, "doc.json")
    try:
        io.save(obj, p, audio_dir=audio_dir_save)
        loaded = io.load(p, audio_dir=audio_dir_load)
        if want_doc:
            return loaded, json.load(open(p))
        return loaded
    finally:
        try:
            os.remove(p)
        except OSError:
            pass
        os.rmdir(d)


# --------------------------------------------------------------------------
# comparator: every declared field of every nested object


def same(a, b, path="", ignore=()):
    """None if equal in every declared field (Term by label only), else the
    path of the first difference"""
    from soundevent import data

    if isinstance(a, data.Term) or isinstance(b, data.Term):
        if not (isinstance(a, data.Term) and isinstance(b, data.Term)):
            return path + ":term-type"
        return None if a.label == b.label else path + ".label"
    if hasattr(type(a), "model_fields") and hasattr(a, "__dict__") and not isinstance(a, (list, tuple, dict)):
        if type(a) is not type(b):
            return path + ":type(%s vs %s)" % (type(a).__name__, type(b).__name__)
        for f in type(a).model_fields:
            if (type(a).__name__, f) in ignore:
                continue
            d = same(getattr(a, f), getattr(b, f), path + "." + f, ignore)
            if d:
                return d
        return None
    if isinstance(a, (list, tuple)):
        if not isinstance(b, (list, tuple)):
            return path + ":list-type"
        if len(a) != len(b):
            return path + ":len(%d vs %d)" % (len(a), len(b))
        for i, (x, y) in enumerate(zip(a, b)):
            d = same(x, y, "%s[%d]" % (path, i), ignore)
            if d:
                return d
        return None
    if a is None or b is None:
        return None if (a is None and b is None) else path + ":none"
    if isinstance(a, bool) or isinstance(b, bool):
        return None if (isinstance(a, bool) and isinstance(b, bool) and a == b) else path
    return None if a == b else path


# --------------------------------------------------------------------------
# builder


class Choices:
    """symbolic choice inputs handed out in order; the harness signature fixes
    how many there are (unused ones stay unconstrained and cost nothing)"""

    def __init__(self, bits, nums=(), ints=()):
        self.bits = list(bits)
        self.nums = list(nums)
        self.ints = list(ints)
        self.used_bits = 0

    def bit(self):
        b = self.bits.pop(0)
        self.used_bits += 1
        return True if b else False  # forks here

    def num(self):
        return self.nums.pop(0)

    def int(self, lo, hi):
        """an int in [lo, hi]: values outside make the path vacuous"""
        v = self.ints.pop(0)
        for k in range(lo, hi + 1):
            if v == k:
                return k
        raise Vacuous()


class Vacuous(Exception):
    pass


class Fixed:
    """concrete choices: every optional present / rich (True) or minimal (False)"""

    def __init__(self, rich=True, num=0.5):
        self.rich = rich
        self._num = num
        self.k = 0

    def bit(self):
        return self.rich

    def num(self):
        self.k += 1
        return self._num + self.k / 64.0

    def int(self, lo, hi):
        return hi if self.rich else lo


class Builder:
    def __init__(self, audio_root="/data/audio"):
        from soundevent import data

        self.d = data
        self.n = 0
        self.audio_root = audio_root
        self.users = {}
        self.recordings = {}

    def uid(self):
        self.n += 1
        return h.U(1000 + self.n)

    def atom(self):
        self.n += 1
        return self.n

    # leaves ------------------------------------------------------------
    def term(self, k):
        return self.d.Term(label=h.S(k, "label"), name=h.S(k, "name"), definition=h.S(k, "def"))

    def tag(self, k, v=None):
        return self.d.Tag(term=self.term(k), value=h.S(k if v is None else v, "val"))

    def tags(self, *ks):
        """a tag list whose ORDER differs from object to object and which repeats a tag every other time: list
        order and multiplicity must not depend on the order in which the writer first met the tags"""
        self.ntaglists = getattr(self, "ntaglists", 0) + 1
        ks = list(ks)
        if self.ntaglists % 2 == 0:
            ks = ks[::-1] + ks[:1]
        return [self.tag(k) for k in ks]

    def feature(self, k, value):
        return self.d.Feature(term=self.term(k), value=value)

    def user(self, k, c):
        if k in self.users:
            return self.users[k]
        u = self.d.User(
            uuid=h.U(500 + k),
            username=h.S(10 + k, "user") if c.bit() else None,
            email=h.EMAIL(20 + k) if c.bit() else None,
            name=h.S(30 + k, "name") if c.bit() else None,
            institution=h.S(40 + k, "inst") if c.bit() else None,
        )
        self.users[k] = u
        return u

    def note(self, c, user_k=0):
        return self.d.Note(
            uuid=self.uid(),
            message=h.S(self.atom(), "msg"),
            created_by=self.user(user_k, c) if c.bit() else None,
            is_issue=c.bit(),
            created_on=h.DT(self.atom()),
        )

    def recording(self, k, c, rich_lists=None, path=None):
        if k in self.recordings:
            return self.recordings[k]
        lists = c.bit() if rich_lists is None else rich_lists
        r = self.d.Recording(
            uuid=h.U(100 + k),
            path=path or ("%s/site%d/rec %d.wav" % (self.audio_root, k, k)),
            duration=c.num(),
            channels=1 + k,
            samplerate=8000 * (1 + k),
            time_expansion=c.num() if c.bit() else 1.0,
            hash=h.S(self.atom(), "hash") if c.bit() else None,
            date=h.DATE(self.atom()) if c.bit() else None,
            time=h.TIME(self.atom()) if c.bit() else None,
            latitude=c.num() if c.bit() else None,
            longitude=c.num() if c.bit() else None,
            license=h.S(self.atom(), "lic") if c.bit() else None,
            rights=h.S(self.atom(), "rights") if c.bit() else None,
            owners=[self.user(1, c)] if lists else [],
            tags=self.tags(1, 2) if lists else [],
            features=[self.feature(3, c.num()), self.feature(4, c.num())] if lists else [],
            notes=[self.note(c, user_k=2)] if lists else [],
        )
        self.recordings[k] = r
        return r

    def clip(self, rec, c, start=0.0, end=1.0):
        return self.d.Clip(
            uuid=self.uid(), recording=rec, start_time=start, end_time=end,
            features=[self.feature(5, c.num())] if c.bit() else [],
        )

    def geometry(self, kind, c):
        d = self.d
        a, b = c.num(), c.num()
        if kind == 0:
            return d.TimeStamp(coordinates=a)
        if kind == 1:
            return d.TimeInterval(coordinates=[a, a + b])
        if kind == 2:
            return d.BoundingBox(coordinates=[a, b, a + 1, b + 1])
        if kind == 3:
            return d.Point(coordinates=[a, b])
        if kind == 4:
            return d.LineString(coordinates=[[a, b], [a + 1, b + 2]])
        if kind == 5:
            return d.Polygon(coordinates=[[[a, b], [a + 1, b], [a + 1, b + 1]]])
        if kind == 6:
            return d.MultiPoint(coordinates=[[a, b], [a + 1, b]])
        if kind == 7:
            return d.MultiLineString(coordinates=[[[a, b], [a + 1, b + 1]]])
        if kind == 8:
            return d.MultiPolygon(coordinates=[[[[a, b], [a + 1, b], [a + 1, b + 1]]]])
        return None

    def sound_event(self, rec, c, kind=2):
        return self.d.SoundEvent(
            uuid=self.uid(), geometry=self.geometry(kind, c), recording=rec,
            features=[self.feature(6, c.num())] if c.bit() else [],
        )

    def sequence(self, events, c, parent=None):
        return self.d.Sequence(
            uuid=self.uid(), sound_events=list(events), parent=parent,
            features=[self.feature(7, c.num())] if c.bit() else [],
        )

    def se_annotation(self, se, c):
        return self.d.SoundEventAnnotation(
            uuid=self.uid(), sound_event=se,
            notes=[self.note(c, user_k=3)] if c.bit() else [],
            tags=self.tags(2, 5) if c.bit() else [],
            created_by=self.user(4, c) if c.bit() else None,
            created_on=h.DT(self.atom()),
        )

    def seq_annotation(self, seq, c):
        # users 7 and 8 occur nowhere else: a user referenced only from here must still be written
        return self.d.SequenceAnnotation(
            uuid=self.uid(), sequence=seq,
            notes=[self.note(c, user_k=8)] if c.bit() else [],
            tags=self.tags(6, 5) if c.bit() else [],
            created_by=self.user(7, c) if c.bit() else None,
            created_on=h.DT(self.atom()),
        )

    def clip_annotation(self, clip, c, sound_events=(), sequences=()):
        return self.d.ClipAnnotation(
            uuid=self.uid(), clip=clip, sound_events=list(sound_events), sequences=list(sequences),
            tags=self.tags(7, 2) if c.bit() else [],
            notes=[self.note(c, user_k=5)] if c.bit() else [],
            created_on=h.DT(self.atom()),
        )

    def ptags(self, c, ks=(1, 8)):
        return [self.d.PredictedTag(tag=self.tag(k), score=c.num()) for k in ks]

    def se_prediction(self, se, c):
        return self.d.SoundEventPrediction(
            uuid=self.uid(), sound_event=se, score=c.num(), tags=self.ptags(c) if c.bit() else [],
        )

    def seq_prediction(self, seq, c):
        return self.d.SequencePrediction(
            uuid=self.uid(), sequence=seq, score=c.num(), tags=self.ptags(c, (9,)) if c.bit() else [],
        )

    def clip_prediction(self, clip, c, sound_events=(), sequences=()):
        return self.d.ClipPrediction(
            uuid=self.uid(), clip=clip, sound_events=list(sound_events), sequences=list(sequences),
            tags=self.ptags(c, (10,)) if c.bit() else [],
            features=[self.feature(8, c.num())] if c.bit() else [],
        )

    def match(self, source, target, c):
        return self.d.Match(
            uuid=self.uid(), source=source, target=target, affinity=c.num(),
            score=c.num() if c.bit() else None,
            metrics=[self.feature(9, c.num())] if c.bit() else [],
        )

    def task(self, clip, c):
        d = self.d
        badges = []
        if c.bit():
            badges.append(d.StatusBadge(state=d.AnnotationState.completed, owner=self.user(6, c) if c.bit() else None,
                                        created_on=h.DT(self.atom())))
        return d.AnnotationTask(uuid=self.uid(), clip=clip, status_badges=badges, created_on=h.DT(self.atom()))


# --------------------------------------------------------------------------
# reachable objects of a collection (walker over the DATA model)


def reachable(obj, acc=None):
    """{kind: {key: object}} of everything reachable from a data object"""
    from soundevent import data

    if acc is None:
        acc = {}

    def put(kind, key, o):
        acc.setdefault(kind, {})
        if key in acc[kind]:
            return False
        acc[kind][key] = o
        return True

    def walk(o):
        if o is None:
            return
        if isinstance(o, (list, tuple)):
            for x in o:
                walk(x)
            return
        if isinstance(o, data.Tag):
            put("tags", (o.term.label, o.value), o)
            return
        if isinstance(o, data.PredictedTag):
            walk(o.tag)
            return
        if isinstance(o, (data.Feature, data.Term)):
            return
        kinds = [
            (data.User, "users"), (data.Recording, "recordings"), (data.Clip, "clips"),
            (data.SoundEvent, "sound_events"), (data.Sequence, "sequences"),
            (data.SoundEventAnnotation, "sound_event_annotations"),
            (data.SequenceAnnotation, "sequence_annotations"), (data.ClipAnnotation, "clip_annotations"),
            (data.SoundEventPrediction, "sound_event_predictions"),
            (data.SequencePrediction, "sequence_predictions"), (data.ClipPrediction, "clip_predictions"),
            (data.Match, "matches"), (data.ClipEvaluation, "clip_evaluations"), (data.AnnotationTask, "tasks"),
        ]
        for cls, kind in kinds:
            if isinstance(o, cls):
                if not put(kind, o.uuid, o):
                    return
                break
        if hasattr(type(o), "model_fields") and hasattr(o, "__dict__"):
            for f in type(o).model_fields:
                v = getattr(o, f)
                if isinstance(v, (list, tuple)) or hasattr(type(v), "model_fields"):
                    walk(v)

    walk(obj)
    return acc
