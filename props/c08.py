"""C08 — detection evaluation accounts for every sound event and only credits
overlaps.  Real code: evaluation/tasks/sound_event_detection.py (all),
tasks/common.py, evaluation/match.py (real, LSA by contract), encoding.py,
metrics.classification_score, and the ClipEvaluation / Match validators."""

from __future__ import annotations

from vf import h
from vf.plan import Ob

h.setup(
    fakes=("pydantic", "shp"),
    modules=("soundevent.data", "soundevent.evaluation"),
    real_first=("numpy", "xarray", "rasterio.features", "scipy.sparse.csgraph", "scipy.optimize",
                "matplotlib.pyplot", "sklearn.metrics"),
)

from soundevent import data  # noqa: E402
from soundevent.evaluation import encoding as ENC  # noqa: E402
from soundevent.evaluation import match as M  # noqa: E402
from soundevent.evaluation import metrics as MET  # noqa: E402
import importlib  # noqa: E402

SED = importlib.import_module("soundevent.evaluation.tasks.sound_event_detection")

from props import graph  # noqa: E402

if h.MODEL:
    from models import npl, scp, skl

    for _m in (M, ENC, MET, SED):
        _m.np = npl.numpy
    M.linear_sum_assignment = scp.linear_sum_assignment
    MET.metrics = skl.metrics


class OpaqueGeometryAccess(BaseException):
    pass


def _pick(v, n):
    for k in range(n):
        if v == k:
            return k
    raise graph.Vacuous()


def _close(a, b):
    if h.MODEL:
        return a == b
    return abs(float(a) - float(b)) <= 1e-6


def _term(k):
    return data.Term(label=h.S(k, "label"), name=h.S(k, "name"), definition=h.S(0, "def"))


VOCAB = [0, 1]  # tag codes in the vocabulary; code 2 is outside it


def _tag(code):
    return data.Tag(term=_term(code), value=h.S(code, "val"))


def ob_clip(g0: bool, g1: bool, g2: bool, g3: bool, a00: float, a01: float, a10: float, a11: float,
            t0: int, t1: int, p00: float, p01: float, p10: float, p11: float) -> bool:
    """
    pre: 0 <= a00 <= 1 and 0 <= a01 <= 1 and 0 <= a10 <= 1 and 0 <= a11 <= 1
    pre: 0 <= p00 and 0 <= p01 and p00 + p01 <= 1 and 0 <= p10 and 0 <= p11 and p10 + p11 <= 1
    post: _
    """
    n_ann, n_pred = h.P("n_ann"), h.P("n_pred")
    try:
        true_codes = [_pick(t, 4) for t in (t0, t1)][:n_ann]  # 0,1 in vocabulary; 2 outside; 3 no tag
    except graph.Vacuous:
        return True
    ann_geo = [True if g else False for g in (g0, g1)][:n_ann]
    pred_geo = [True if g else False for g in (g2, g3)][:n_pred]
    A = [[a00, a01], [a10, a11]]  # affinity[prediction][annotation]
    P = [[p00, p01], [p10, p11]]
    if not h.P("stub_run_metrics", True):
        P = [[0.6, 0.3], [0.2, 0.7]]  # concrete scores: the whole pipeline incl. run-level metrics runs
    rec = data.Recording(uuid=h.U(1), path="/d/a.wav", duration=10.0, channels=1, samplerate=8000)
    clip = data.Clip(uuid=h.U(2), recording=rec, start_time=0.0, end_time=10.0)
    geoms = {}
    anns, preds = [], []
    for i in range(n_ann):
        g = data.TimeStamp(coordinates=1.0 + i) if ann_geo[i] else None
        if g is not None:
            geoms[id(g)] = ("a", i)
        se = data.SoundEvent(uuid=h.U(10 + i), geometry=g, recording=rec)
        tags = [] if true_codes[i] == 3 else [_tag(true_codes[i])]
        anns.append(data.SoundEventAnnotation(uuid=h.U(20 + i), sound_event=se, tags=tags, created_on=h.DT(1)))
    for j in range(n_pred):
        g = data.TimeStamp(coordinates=5.0 + j) if pred_geo[j] else None
        if g is not None:
            geoms[id(g)] = ("p", j)
        se = data.SoundEvent(uuid=h.U(30 + j), geometry=g, recording=rec)
        ptags = [data.PredictedTag(tag=_tag(0), score=P[j][0]), data.PredictedTag(tag=_tag(1), score=P[j][1])]
        preds.append(data.SoundEventPrediction(uuid=h.U(40 + j), sound_event=se, score=1.0, tags=ptags))
    ca = data.ClipAnnotation(uuid=h.U(3), clip=clip, sound_events=anns, created_on=h.DT(1))
    cp = data.ClipPrediction(uuid=h.U(4), clip=clip, sound_events=preds)

    def affinity(g1, g2, time_buffer=0.01, freq_buffer=100):
        if id(g1) not in geoms or id(g2) not in geoms:
            # the code under test handed over a geometry it built itself: the symbolic-matrix obligations
            # (which assume the geometries are passed through untouched) do not apply -> inconclusive;
            # the geometric obligations (clip-geo-*) decide in that case
            raise OpaqueGeometryAccess("compute_affinity called on a derived geometry")
        (k1, i1), (k2, i2) = geoms[id(g1)], geoms[id(g2)]
        if k1 == "p" and k2 == "a":
            return A[i1][i2]
        if k1 == "a" and k2 == "p":
            return A[i2][i1]
        raise AssertionError("affinity between two events of the same side")

    # recorded finding: when no evaluated item has an in-vocabulary true class, the run-level mean average
    # precision is computed over zero items and scikit-learn raises
    no_labelled = all(c not in (0, 1) for c in true_codes)
    if h.known("C08-no-labelled-item-map-raises", no_labelled):
        return True
    saved = M.compute_affinity
    saved_metrics = SED.compute_overall_metrics
    M.compute_affinity = affinity
    if h.P("stub_run_metrics", True):
        # the run-level metric VALUES are C09's subject; computing them on symbolic scores only multiplies
        # paths.  (ob_clip with stub_run_metrics=False and concrete scores keeps the full pipeline in scope.)
        SED.compute_overall_metrics = lambda true_classes, scores: []
    try:
        ev = SED.sound_event_detection([cp], [ca], [_tag(c) for c in VOCAB])
    except ValueError as e:
        return h.fail("evaluation of a well-formed input raised: " + type(e).__name__)
    except IndexError:
        return h.fail("evaluation of a well-formed input raised: IndexError")
    finally:
        M.compute_affinity = saved
        SED.compute_overall_metrics = saved_metrics
    if len(ev.clip_evaluations) != 1:
        return h.fail("clip present in both inputs is not evaluated exactly once")
    ce = ev.clip_evaluations[0]
    seen_a = [0] * n_ann
    seen_p = [0] * n_pred
    scores = []
    paired = 0
    for m in ce.matches:
        ia = jp = None
        if m.target is not None:
            ia = [k for k in range(n_ann) if anns[k].uuid == m.target.uuid]
            if len(ia) != 1:
                return h.fail("match target is not an annotated sound event of the clip")
            ia = ia[0]
            seen_a[ia] += 1
        if m.source is not None:
            jp = [k for k in range(n_pred) if preds[k].uuid == m.source.uuid]
            if len(jp) != 1:
                return h.fail("match source is not a predicted sound event of the clip")
            jp = jp[0]
            seen_p[jp] += 1
        if ia is not None and jp is not None:
            paired += 1
            if not (ann_geo[ia] and pred_geo[jp]):
                return h.fail("pair involving an event without geometry")
            if not (A[jp][ia] > 0):
                return h.fail("prediction paired with an annotation it does not overlap")
            if not _close(m.affinity, A[jp][ia]):
                return h.fail("paired match does not report the geometric affinity")
            c = true_codes[ia]
            want = P[jp][c] if c in (0, 1) else 1 - (P[jp][0] + P[jp][1])
            if m.score is None or not _close(m.score, want):
                return h.fail("pair score is not the probability given to the annotation's class")
        else:
            if not (m.affinity == 0):
                return h.fail("unpaired event reports a non-zero affinity")
            if not (m.score is not None and m.score == 0):
                return h.fail("unpaired event does not score 0")
        scores.append(m.score)
    for c in seen_a:
        if c != 1:
            return h.fail("an annotated sound event is not in exactly one match")
    for c in seen_p:
        if c != 1:
            return h.fail("a predicted sound event is not in exactly one match")
    want_clip = (sum(scores) / len(scores)) if scores else 0.0
    if ce.score is None or not _close(ce.score, want_clip):
        return h.fail("clip score is not the mean of its match scores")
    if ev.score is None or not _close(ev.score, want_clip):
        return h.fail("overall score is not the mean of the clip scores")
    nogeo = (not all(ann_geo)) or (not all(pred_geo))
    return h.done(paired=(paired > 0), unpaired=(paired == 0 and n_ann + n_pred > 0), nogeo=nogeo)


def ob_clip_geo(ta: float, tp: float, wa: float, p0: float, p1: float, code: int) -> bool:
    """
    pre: 0 <= ta <= 100 and 0 <= tp <= 100 and 0 <= wa <= 10
    pre: 0 <= p0 and 0 <= p1 and p0 + p1 <= 1
    post: _
    """
    # real geometries and the real compute_affinity (default buffers): one annotation, one prediction
    from soundevent.evaluation import affinity as AFF

    kind = h.P("kind")
    try:
        c = _pick(code, 2)
    except graph.Vacuous:
        return True
    rec = data.Recording(uuid=h.U(1), path="/d/a.wav", duration=1000.0, channels=1, samplerate=8000)
    clip = data.Clip(uuid=h.U(2), recording=rec, start_time=0.0, end_time=1000.0)
    ga = data.TimeStamp(coordinates=ta) if kind == "stamp" else data.TimeInterval(coordinates=[ta, ta + wa])
    gp = data.TimeStamp(coordinates=tp)
    ann = data.SoundEventAnnotation(uuid=h.U(20), sound_event=data.SoundEvent(uuid=h.U(10), geometry=ga, recording=rec),
                                    tags=[_tag(c)], created_on=h.DT(1))
    pred = data.SoundEventPrediction(uuid=h.U(40), sound_event=data.SoundEvent(uuid=h.U(30), geometry=gp, recording=rec),
                                     score=1.0, tags=[data.PredictedTag(tag=_tag(0), score=p0),
                                                      data.PredictedTag(tag=_tag(1), score=p1)])
    ca = data.ClipAnnotation(uuid=h.U(3), clip=clip, sound_events=[ann], created_on=h.DT(1))
    cp = data.ClipPrediction(uuid=h.U(4), clip=clip, sound_events=[pred])
    A = AFF.compute_affinity(gp, ga)
    saved_metrics = SED.compute_overall_metrics
    SED.compute_overall_metrics = lambda true_classes, scores: []
    try:
        ev = SED.sound_event_detection([cp], [ca], [_tag(k) for k in VOCAB])
    finally:
        SED.compute_overall_metrics = saved_metrics
    ms = ev.clip_evaluations[0].matches
    both = [m for m in ms if m.source is not None and m.target is not None]
    if A > 0:
        if len(ms) != 1 or len(both) != 1:
            return h.fail("overlapping annotation and prediction are not paired")
        if not _close(both[0].affinity, A):
            return h.fail("paired match does not report the geometric affinity")
        if not _close(both[0].score, [p0, p1][c]):
            return h.fail("pair score is not the probability given to the annotation's class")
    else:
        if both:
            return h.fail("prediction paired with an annotation it does not overlap")
        if len(ms) != 2 or any(not (m.affinity == 0 and m.score == 0) for m in ms):
            return h.fail("unpaired events are not reported once each with affinity 0 and score 0")
    want = ([p0, p1][c]) if A > 0 else 0.0
    if not _close(ev.clip_evaluations[0].score, want) or not _close(ev.score, want):
        return h.fail("clip / overall score is not the mean of the match scores")
    # reachability witnesses away from the knife edge (replayed in doubles)
    gap = ta - tp if ta >= tp else tp - ta
    return h.done(paired=(A > 0.25), unpaired=(not (A > 0) and gap > 1))


def ob_clips(in0: bool, in1: bool, in2: bool, swap: bool) -> bool:
    """
    post: _
    """
    # which clips are evaluated: exactly those present in both inputs
    rec = data.Recording(uuid=h.U(1), path="/d/a.wav", duration=10.0, channels=1, samplerate=8000)
    clips = [data.Clip(uuid=h.U(50 + k), recording=rec, start_time=float(k), end_time=float(k) + 1) for k in range(3)]
    ann_sel = [0, 1] if not swap else [1, 0]
    if in2:
        ann_sel = ann_sel + [2]
    pred_sel = [k for k, f in zip(range(3), (in0, in1, True)) if f]
    cas = [data.ClipAnnotation(uuid=h.U(60 + k), clip=clips[k], created_on=h.DT(1)) for k in ann_sel]
    cps = [data.ClipPrediction(uuid=h.U(70 + k), clip=clips[k]) for k in pred_sel]
    try:
        ev = SED.sound_event_detection(cps, cas, [_tag(c) for c in VOCAB])
    except (ValueError, IndexError) as e:
        # run-level metrics need at least one evaluated sound event (the statement's premise is on C09)
        return h.done(evaluated=False, raised=True)
    want = sorted(k for k in pred_sel if k in ann_sel)
    got = sorted(int(ce.annotations.clip.uuid.int) - 50 for ce in ev.clip_evaluations)
    if got != want:
        return h.fail("evaluated clips are not exactly the clips present in both inputs")
    for ce in ev.clip_evaluations:
        if ce.annotations.clip.uuid != ce.predictions.clip.uuid:
            return h.fail("annotations and predictions of different clips paired")
    return h.done(evaluated=True, raised=False)


def plan():
    q = ("quick", "thorough")
    obs = []
    for n_ann in range(0, 3):
        for n_pred in range(0, 3):
            if n_ann + n_pred == 0:
                continue
            big = n_ann == 2 and n_pred == 2
            tw = ("unpaired", "nogeo") if min(n_ann, n_pred) == 0 else ("paired", "unpaired", "nogeo")
            big = n_ann + n_pred >= 3
            obs.append(Ob("clip-a%dp%d" % (n_ann, n_pred), ob_clip, "real", 9000 if big else 1800,
                          dict(n_ann=n_ann, n_pred=n_pred), ("thorough",) if (big and (n_ann, n_pred) != (1, 2)) else q,
                          twins=tw, twin_timeout=600))
    for (n_ann, n_pred) in ((1, 1), (0, 1), (2, 1)):
        obs.append(Ob("full-pipeline-a%dp%d" % (n_ann, n_pred), ob_clip, "real", 1800,
                      dict(n_ann=n_ann, n_pred=n_pred, stub_run_metrics=False), q if n_ann < 2 else ("thorough",),
                      twins=("unpaired",), twin_timeout=600))
    for kind in ("stamp", "interval"):
        obs.append(Ob("clip-geo-" + kind, ob_clip_geo, "real", 1800, dict(kind=kind), q, twins=("paired", "unpaired"),
                      twin_timeout=300))
    obs.append(Ob("evaluated-clips", ob_clips, "real", 600, {}, q, twins=("raised",), twin_timeout=300))
    return obs


INFO = dict(
    functions=[
        "soundevent.evaluation.tasks.sound_event_detection: sound_event_detection, _evaluate_clips, evaluate_clip, "
        "evaluate_sound_event, compute_overall_metrics, _mean",
        "soundevent.evaluation.tasks.common.iterate_over_valid_clips",
        "soundevent.evaluation.match: match_geometries, _select_matches",
        "soundevent.evaluation.encoding (encoder, classification_encoding, prediction_encoding), "
        "metrics.classification_score / true_class_probability",
        "ClipEvaluation / Match validators (C04) as backstop",
    ],
    bounds="one evaluated clip with <= 2 annotated and <= 2 predicted sound events (2x2 in the thorough tier), each "
    "with or without geometry, EVERY affinity matrix in [0,1]^(2x2), true tag of each annotation in {vocabulary tag "
    "0, 1, an out-of-vocabulary tag, none}, predicted scores symbolic with sum <= 1, vocabulary of 2 tags; clip "
    "pairing: 3 clips with every membership pattern; exact real arithmetic",
    trusted_base=[
        "models/scp.py LSA contract, models/npl.py, models/pyd.py",
        "models/skl.py (accuracy family by definition; average precision uninterpreted) for the run-level metrics",
        "compute_affinity replaced by a symbolic matrix (C06 is its contract); replay uses real numpy/scipy/sklearn",
        "CrossHair 0.0.110 + z3",
    ],
    outside=["float32 storage of predicted scores (compared up to 1e-6 in replay)", "more than 2 events per side",
             "the run-level metric values (C09)", "inputs without any sound event in an evaluated clip: the "
             "run-level metrics raise on the empty score matrix (observation, see C09's premise)"],
)
