"""C01 — AOEF save/load round trip is lossless for every collection type.
Real code: soundevent/io/saver.py, loader.py, io/aoef/__init__.py (save, load,
to_aeof, to_soundevent, AOEFObject union) and all 26 adapter modules."""

from __future__ import annotations

from vf import h
from vf.plan import Ob

h.setup(fakes=("pydantic",), modules=("soundevent.data", "soundevent.io"))

from soundevent import data  # noqa: E402

from props import graph  # noqa: E402

if h.MODEL:
    graph.install_mem_io()

ROOT = "/data/audio"


class Win(graph.Choices):
    """choice stream: the first `skip` choices fixed, the next len(bits)
    symbolic, the rest fixed (rich / minimal per `rest`)"""

    def __init__(self, bits, nums, skip, rest):
        super().__init__(bits, nums)
        self.skip = skip
        self.rest = rest
        self.seen = 0
        self.k = 0

    def bit(self):
        self.seen += 1
        if self.seen <= self.skip or not self.bits:
            return self.rest
        b = self.bits.pop(0)
        return True if b else False

    def num(self):
        if self.nums:
            return self.nums.pop(0)
        self.k += 1
        return 0.25 + self.k / 128.0


def build(coll, c, geom_kind, g):
    """a bounded object graph for collection type `coll`; `g` are structure
    choices (sharing, presence of second members, parents, foreign recordings)"""
    b = graph.Builder(ROOT)
    rec0 = b.recording(0, c)
    rec1 = b.recording(1, graph.Fixed(rich=g["rec1_rich"]))
    if coll in ("recording_set", "dataset"):
        recs = [rec0, rec1] if g["second"] else [rec0]
        kw = dict(uuid=b.uid(), recordings=recs, created_on=h.DT(b.atom()))
        if coll == "dataset":
            return data.Dataset(name=h.S(b.atom(), "ds"), description=h.S(b.atom(), "desc") if g["desc"] else None, **kw)
        return data.RecordingSet(**kw)
    clip0 = b.clip(rec0, c, 0.0, 2.0)
    clip1 = b.clip(rec1 if g["clip1_other_rec"] else rec0, graph.Fixed(True), 1.0, 3.0)
    se0 = b.sound_event(rec0, c, geom_kind)
    se1 = b.sound_event(rec1 if g["se1_other_rec"] else rec0, graph.Fixed(True), (geom_kind + 3) % 9)
    # three levels of nesting when both choices are set (a grandparent reached only through its grandchild)
    seq_grand = b.sequence([se0], graph.Fixed(False)) if (g["parent"] and g["seq_two"]) else None
    seq_parent = b.sequence([se0], c, parent=seq_grand)
    seq_child = b.sequence([se1, se0] if g["seq_two"] else [se1], graph.Fixed(True),
                           parent=seq_parent if g["parent"] else None)
    if coll in ("annotation_set", "annotation_project", "evaluation_set", "evaluation"):
        a0 = b.se_annotation(se0, c)
        a1 = b.se_annotation(se1, graph.Fixed(g["rich2"]))
        sa = b.seq_annotation(seq_child, c)
        ca0 = b.clip_annotation(clip0, c, [a0, a1] if g["two_events"] else [a0], [sa] if g["with_seq"] else [])
        ca1 = b.clip_annotation(clip1, graph.Fixed(g["rich2"]), [], [])
        cas = [ca0, ca1] if g["second"] else [ca0]
    if coll in ("prediction_set", "model_run", "evaluation"):
        p0 = b.se_prediction(se0, c)
        p1 = b.se_prediction(se1, graph.Fixed(g["rich2"]))
        sp = b.seq_prediction(seq_child, c)
        cp0 = b.clip_prediction(clip0, c, [p0, p1] if g["two_events"] else [p0], [sp] if g["with_seq"] else [])
        cp1 = b.clip_prediction(clip1, graph.Fixed(g["rich2"]), [], [])
        cps = [cp0, cp1] if g["second"] else [cp0]
    base = dict(uuid=b.uid(), created_on=h.DT(b.atom()))
    if coll == "annotation_set":
        return data.AnnotationSet(clip_annotations=cas, **base)
    if coll == "annotation_project":
        tasks = [b.task(clip0, c)] + ([b.task(clip1, graph.Fixed(g["rich2"]))] if g["second"] else [])
        if g["extra_task"]:
            tasks.append(b.task(b.clip(rec1, graph.Fixed(False), 5.0, 6.0), graph.Fixed(True)))
        return data.AnnotationProject(
            clip_annotations=cas, tasks=tasks, name=h.S(b.atom(), "proj"),
            description=h.S(b.atom(), "desc") if g["desc"] else None,
            instructions=h.S(b.atom(), "instr") if g["desc"] else None,
            annotation_tags=[b.tag(11), b.tag(2)] if g["own_tags"] else [], **base)
    if coll == "evaluation_set":
        return data.EvaluationSet(
            clip_annotations=cas, name=h.S(b.atom(), "evset"),
            description=h.S(b.atom(), "desc") if g["desc"] else None,
            evaluation_tags=[b.tag(12), b.tag(2)] if g["own_tags"] else [], **base)
    if coll == "prediction_set":
        return data.PredictionSet(clip_predictions=cps, **base)
    if coll == "model_run":
        return data.ModelRun(clip_predictions=cps, name=h.S(b.atom(), "model"),
                             version=h.S(b.atom(), "v") if g["desc"] else None,
                             description=h.S(b.atom(), "desc") if g["desc"] else None, **base)
    if coll == "evaluation":
        ms = [b.match(p0, a0, c)]
        if g["two_events"]:
            ms += [b.match(p1, None, graph.Fixed(g["rich2"])), b.match(None, a1, graph.Fixed(False))]
        ce0 = data.ClipEvaluation(uuid=b.uid(), annotations=ca0, predictions=cp0, matches=ms,
                                  metrics=[b.feature(13, c.num())] if c.bit() else [],
                                  score=c.num() if c.bit() else None)
        ces = [ce0]
        if g["second"]:
            ces.append(data.ClipEvaluation(uuid=b.uid(), annotations=ca1, predictions=cp1, matches=[], metrics=[],
                                           score=None))
        return data.Evaluation(evaluation_task=h.S(b.atom(), "task"), clip_evaluations=ces,
                               metrics=[b.feature(14, c.num()), b.feature(15, c.num())] if c.bit() else [],
                               score=c.num() if c.bit() else None, **base)
    raise KeyError(coll)


G_KEYS = ["second", "rec1_rich", "clip1_other_rec", "se1_other_rec", "parent", "seq_two", "two_events", "with_seq",
          "rich2", "desc", "own_tags", "extra_task"]


def ob_roundtrip(
    b0: bool, b1: bool, b2: bool, b3: bool, b4: bool, b5: bool, b6: bool, b7: bool,
    s0: bool, s1: bool, s2: bool, s3: bool,
    x0: float, x1: float, x2: float, x3: float,
) -> bool:
    """
    pre: 0 <= x0 <= 1 and 0 <= x1 <= 1 and 0 <= x2 <= 1 and 0 <= x3 <= 1
    post: _
    """
    coll = h.P("coll")
    g = dict(h.P("g"))
    for name, v in zip(h.P("gsym", []), [s0, s1, s2, s3]):
        g[name] = True if v else False
    c = Win([b0, b1, b2, b3, b4, b5, b6, b7][: h.P("nbits", 8)], [x0, x1, x2, x3][: h.P("nnums", 4)],
            h.P("skip", 0), h.P("rest", True))
    try:
        obj = build(coll, c, h.P("geom", 2), g)
    except graph.Vacuous:
        return True
    audio = ROOT if h.P("audio_dir") else None
    loaded = graph.cycle(obj, audio, audio)
    if type(loaded) is not type(obj):
        return h.fail("loaded object has another type")
    diff = graph.same(obj, loaded)
    if diff:
        return h.fail("field lost or changed: " + _generic(diff))
    again = graph.cycle(loaded, audio, audio)
    if graph.same(loaded, again) or not (again == loaded):
        return h.fail("second cycle is not a fixpoint")
    return h.done(any=True)


def _generic(path):
    import re

    return re.sub(r"\[\d+\]", "[]", path)


COLLS = ["recording_set", "dataset", "annotation_set", "annotation_project", "evaluation_set", "prediction_set",
         "model_run", "evaluation"]
RICH = {k: True for k in G_KEYS}
MIN = {k: False for k in G_KEYS}
class _Counting(graph.Fixed):
    def __init__(self):
        super().__init__(True)
        self.bits = 0

    def bit(self):
        self.bits += 1
        return True


def nflags(coll):
    """number of presence flags the focus objects of `coll` consume (all-rich)"""
    c = _Counting()
    build(coll, c, 2, dict(RICH))
    return c.bits


# flags [0, SHARED) are the focus recording's and are consumed first by every collection
def windows(coll, size, start=0):
    n = nflags(coll)
    return [(skip, min(size, n - skip)) for skip in range(start, n, size)]


def plan():
    obs = []
    q = ("quick", "thorough")
    rec_flags = nflags("recording_set")
    for coll in COLLS:
        for audio in (False, True):
            # (1) structure choices symbolic (all 2^4 combinations), leaves rich
            groups = [["second", "rec1_rich", "desc", "own_tags"]]
            if coll not in ("recording_set", "dataset"):
                groups = [["second", "two_events", "with_seq", "parent"],
                          ["clip1_other_rec", "se1_other_rec", "seq_two", "rich2"],
                          ["desc", "own_tags", "extra_task", "rec1_rich"]]
            for gi, gsym in enumerate(groups):
                quick = (gi == 0 and not audio) or (gi == 2 and audio and coll in ("evaluation_set", "annotation_project"))
                obs.append(Ob("%s-%s-structure%d" % (coll, "dir" if audio else "nodir", gi), ob_roundtrip, "real", 900,
                              dict(coll=coll, g=RICH, gsym=gsym, nbits=0, nnums=(4 if coll in ("recording_set", "dataset") else 1), rest=True, audio_dir=audio,
                                   geom=(gi + COLLS.index(coll)) % 9),
                              q if quick else ("thorough",), twins=("any",), twin_timeout=300))
        # (2) presence flags: every window of consecutive flags, all combinations inside the window,
        #     the other flags all present (rich) or all absent (min)
        start = 0 if coll == "recording_set" else rec_flags
        quick_colls = ("recording_set", "annotation_set", "prediction_set", "evaluation", "annotation_project")
        for (skip, size) in windows(coll, 4, start):
            if coll not in quick_colls:
                break
            if coll == "evaluation" and skip < nflags("annotation_set"):
                continue
            if coll == "annotation_project" and skip < nflags("annotation_set"):
                continue
            obs.append(Ob("%s-flags%02d+%d-rich" % (coll, skip, size), ob_roundtrip, "real", 900,
                          dict(coll=coll, g=RICH, gsym=[], nbits=size, nnums=0, skip=skip, rest=True, audio_dir=False,
                               geom=(skip // 4) % 9), ("quick",), twins=("any",), twin_timeout=300))
        for (skip, size) in windows(coll, 6, 0):
            for rest in (True, False):
                obs.append(Ob("%s-flags%02d+%d-%s" % (coll, skip, size, "rich" if rest else "min"), ob_roundtrip,
                              "real", 3000, dict(coll=coll, g=RICH if rest else MIN, gsym=[], nbits=size, nnums=2,
                                                 skip=skip, rest=rest, audio_dir=False, geom=(skip // 6) % 9),
                              ("thorough",), twins=("any",), twin_timeout=300))
    # (3) every geometry type through a sound event
    for kind in range(9):
        obs.append(Ob("geometry-kind%d" % kind, ob_roundtrip, "real", 600,
                      dict(coll="annotation_set", g=MIN, gsym=[], nbits=2, nnums=4, skip=rec_flags, rest=False,
                           audio_dir=False, geom=kind), q, twins=("any",), twin_timeout=300))
    return obs


INFO = dict(
    functions=[
        "soundevent.io.saver.save, soundevent.io.loader.load, soundevent.io.aoef: save, load, to_aeof, to_soundevent, "
        "AOEFObject (discriminated union), ADAPTERS",
        "all adapters: user, tag, note, recording, clip, sound_event, sequence, sound_event_annotation, "
        "sequence_annotation, clip_annotations, annotation_task, sound_event_prediction, sequence_prediction, "
        "clip_predictions, match, clip_evaluation, recording_set, dataset, annotation_set, annotation_project, "
        "evaluation_set, prediction_set, model_run, evaluation (assemble_aoef / assemble_soundevent / to_aoef / "
        "to_soundevent)",
    ],
    bounds="object graphs of <= 2 recordings, 2-3 clips, 2 sound events (one may belong to the other recording), a "
    "parent and a child sequence (and a grandparent), <= 2 annotations/predictions per clip, <= 3 matches, <= 2 clip evaluations, tag "
    "pool of 15, <= 2 features per list with distinct labels; per obligation either 4 structure choices or a window "
    "of 8 consecutive optional-presence flags are symbolic (all 2^k combinations), the remaining flags fixed all-"
    "present or all-absent; up to 4 numeric leaves symbolic in [0,1] (exact reals) incl. 0 and 1; one and two "
    "cycles (fixpoint => every n by induction); with and without an audio directory",
    trusted_base=[
        "models/pyd.py (construction, coercion, discriminated union, structural JSON with exclude_none)",
        "file I/O of the document replaced by an in-memory cell (pathlib for recording paths is real)",
        "string/uuid/datetime leaves are concrete atoms mapped injectively to real values in replay",
        "CrossHair 0.0.110 + z3",
    ],
    outside=["Recording extras (extra='allow')", "non-finite floats", "terms with more than a label",
             "joint variation of more than 6 presence flags", "the JSON text itself (structural model; every witness "
             "is replayed through the real json/pydantic save+load)"],
)
