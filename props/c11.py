"""C11 — buffering grows a geometry and never leaves the valid domain.
Real code: geometry/operations.py buffer_geometry (guard + dispatch),
buffer_timestamp, buffer_interval, buffer_bounding_box_geometry, and the
geometry validators that re-validate the result."""

from __future__ import annotations

from vf import h, sym
from vf.plan import Ob

h.setup(
    fakes=("pydantic", "shp"),
    modules=("soundevent.data", "soundevent.geometry.operations"),
    real_first=("numpy", "xarray", "rasterio.features", "scipy.sparse.csgraph", "matplotlib.pyplot"),
)

from soundevent import data  # noqa: E402
from soundevent.geometry import operations as ops  # noqa: E402

from props import geo  # noqa: E402

MAXF = geo.MAXF

if h.MODEL:
    import types as _types

    from models import shp as _shp

    _shp.ABSTRACT_GEOS = True  # only ob_geos_bounds reaches the GEOS calls
    ops.json = _types.SimpleNamespace(loads=lambda doc: doc)


def _geom(tag, variant, v):
    if not geo.all_finite(geo.used(tag, variant, v)):
        return None
    return geo.make(data, tag, variant, v)


def ob_negative(
    p0: float, p1: float, p2: float, p3: float, p4: float, p5: float, tb: float, fb: float,
) -> bool:
    """
    pre: tb == tb and fb == fb
    pre: tb < 0 or fb < 0
    post: _
    """
    tag, variant = h.P("tag"), h.P("variant")
    P = [p0, p1, p2, p3, p4, p5]
    g = _geom(tag, variant, P)
    if g is None:
        return True
    try:
        ops.buffer_geometry(g, time_buffer=tb, freq_buffer=fb)
    except ValueError:
        return h.done(rejected=True)
    return h.fail("negative buffer accepted")


def _extent_of(g):
    """extent of a result geometry, from its own coordinates"""
    c = g.coordinates
    if g.type == "TimeInterval":
        return (c[0], 0, c[1], MAXF)
    if g.type == "BoundingBox":
        return (c[0], c[1], c[2], c[3])
    raise KeyError(g.type)


def _expected(tag, e, tb, fb):
    """the interval / box widened by the buffers, clipped to the domain"""
    start = sym.fmax(e[0] - tb, 0)
    end = e[2] + tb
    if tag == "BoundingBox":
        return (start, sym.fmax(e[1] - fb, 0), end, sym.fmin(e[3] + fb, MAXF))
    return (start, 0, end, MAXF)


def ob_closed_form(
    p0: float, p1: float, p2: float, p3: float, tb: float, fb: float, tb2: float, fb2: float,
) -> bool:
    """
    pre: 0 <= tb <= tb2 <= 1e9 and 0 <= fb <= fb2 <= 1e9
    pre: p0 <= 1e9 and p1 <= 1e9 and p2 <= 1e9 and p3 <= 1e9
    post: _
    """
    tag = h.P("tag")
    P = [p0, p1, p2, p3]
    g = _geom(tag, 0, P)
    if g is None:
        return True
    e = geo.extent(tag, 0, P)
    try:
        r = ops.buffer_geometry(g, time_buffer=tb, freq_buffer=fb)
        r2 = ops.buffer_geometry(g, time_buffer=tb2, freq_buffer=fb2)
    except ValueError:
        return h.fail("buffering a valid geometry with non-negative buffers raised")
    want_type = "BoundingBox" if tag == "BoundingBox" else "TimeInterval"
    if r.type != want_type or r2.type != want_type:
        return h.fail("wrong result type")
    b = _extent_of(r)
    b2 = _extent_of(r2)
    # valid domain
    if not (b[0] >= 0 and b[0] <= b[2] and 0 <= b[1] <= b[3] <= MAXF):
        return h.fail("result leaves the valid domain")
    # contains the original
    if not (b[0] <= e[0] and b[2] >= e[2] and b[1] <= e[1] and b[3] >= e[3]):
        return h.fail("result does not contain the original")
    # exactly the widened interval / box
    x = _expected(tag, e, tb, fb)
    if not (b[0] == x[0] and b[1] == x[1] and b[2] == x[2] and b[3] == x[3]):
        return h.fail("result is not the interval/box widened by the buffers (clipped)")
    # bounds extend by at least the requested buffers, clipped at the domain edges
    if not ((b[0] <= e[0] - tb or b[0] == 0) and b[2] >= e[2] + tb):
        return h.fail("time bounds extended by less than the buffer")
    if tag == "BoundingBox" and not ((b[1] <= e[1] - fb or b[1] == 0) and (b[3] >= e[3] + fb or b[3] == MAXF)):
        return h.fail("frequency bounds extended by less than the buffer")
    # larger buffers give supersets
    if not (b2[0] <= b[0] and b2[2] >= b[2] and b2[1] <= b[1] and b2[3] >= b[3]):
        return h.fail("larger buffers do not give a superset")
    clamped = sym.bor(b[0] == 0, b[3] == MAXF) if tag == "BoundingBox" else (b[0] == 0)
    return h.done(clamped=clamped, free=sym.bnot(clamped))


def ob_closed_form_ieee(p0: float, p1: float, p2: float, p3: float, tb: float, fb: float) -> bool:
    """
    pre: tb >= 0 and fb >= 0
    post: _
    """
    # every double (incl. +inf buffers "larger than the domain"): the result is
    # valid, contains the original, and is the widened/clipped interval or box
    tag = h.P("tag")
    P = [p0, p1, p2, p3]
    g = _geom(tag, 0, P)
    if g is None:
        return True
    e = geo.extent(tag, 0, P)
    try:
        r = ops.buffer_geometry(g, time_buffer=tb, freq_buffer=fb)
    except ValueError:
        return h.fail("buffering a valid geometry with non-negative buffers raised")
    b = _extent_of(r)
    if not (b[0] >= 0 and b[0] <= b[2] and 0 <= b[1] <= b[3] <= MAXF):
        return h.fail("result leaves the valid domain")
    if not (b[0] <= e[0] and b[2] >= e[2] and b[1] <= e[1] and b[3] >= e[3]):
        return h.fail("result does not contain the original")
    x = _expected(tag, e, tb, fb)
    if not (b[0] == x[0] and b[1] == x[1] and b[2] == x[2] and b[3] == x[3]):
        return h.fail("result is not the interval/box widened by the buffers (clipped)")
    return h.done(any=True)


def ob_geos_bounds(p0: float, p1: float, p2: float, p3: float, p4: float, p5: float, tb: float, fb: float) -> bool:
    """
    pre: 0 <= tb <= 1000 and 0 <= fb <= 100000
    pre: p0 <= 1000 and p2 <= 1000 and p4 <= 1000
    post: _
    """
    # the six types buffered through GEOS, at the level of BOUNDS only: GEOS buffer / clip are abstracted by
    # their bounding rectangles (models/shp.py ABSTRACT_GEOS)
    tag, variant = h.P("tag"), h.P("variant")
    P = [p0, p1, p2, p3, p4, p5]
    g = _geom(tag, variant, P)
    if g is None:
        return True
    e = geo.extent(tag, variant, P)
    try:
        r = ops.buffer_geometry(g, time_buffer=tb, freq_buffer=fb)
    except ValueError:
        return h.fail("buffering a valid geometry with non-negative buffers raised")
    if r.type not in ("Polygon", "MultiPolygon"):
        return h.fail("wrong result type")
    b = ops.compute_bounds(r)
    tol = 0 if h.MODEL else 1e-6
    if not (b[0] >= 0 and b[1] >= 0 and b[3] <= MAXF):
        return h.fail("result leaves the valid domain")
    if not (b[0] <= e[0] + tol and b[2] >= e[2] - tol and b[1] <= e[1] + tol and b[3] >= e[3] - tol):
        return h.fail("result does not contain the original")
    # GEOS approximates round caps by 8-segment polygons, so the extension reaches only >= 98% of the buffer;
    # the literal 'at least the requested buffers' is NOT decided for these types (see DESIGN.md, observations)
    k = 0.98 if h.MODEL else 0.979
    if not ((b[0] <= e[0] - k * tb + tol or b[0] <= tol) and b[2] >= e[2] + k * tb - tol):
        return h.fail("time bounds extended by less than 98% of the buffer")
    if not ((b[1] <= e[1] - k * fb + tol or b[1] <= tol) and (b[3] >= e[3] + k * fb - tol or b[3] >= MAXF - tol)):
        return h.fail("frequency bounds extended by less than 98% of the buffer")
    return h.done(any=True)


CAP_FINDING = "C11-geos-round-cap-shortfall"
CAP_INPUT = [1.0, 100.0, 2.0, 300.0, 0.5, 20.0]  # LineString [[1,100],[2,300]], buffers 0.5 s / 20 Hz


def ob_geos_cap(t0: float, f0: float, t1: float, f1: float, tb: float, fb: float) -> bool:
    """
    pre: 0 <= t0 <= 1000 and 0 <= t1 <= 1000 and 0 <= f0 <= 100000 and 0 <= f1 <= 100000
    pre: 0 <= tb <= 1000 and 0 <= fb <= 100000
    post: _
    """
    # replay target of the recorded finding: the LITERAL clause "bounds extend the original's by at least the
    # requested buffers (clipped)" on real GEOS for a two-point line
    g = data.LineString(coordinates=[[t0, f0], [t1, f1]])
    r = ops.buffer_geometry(g, time_buffer=tb, freq_buffer=fb)
    b = ops.compute_bounds(r)
    lo_t, hi_t, lo_f, hi_f = min(t0, t1), max(t0, t1), min(f0, f1), max(f0, f1)
    short = [max(0.0, b[0] - max(lo_t - tb, 0.0)) / tb if tb else 0.0,
             max(0.0, (hi_t + tb) - b[2]) / tb if tb else 0.0,
             max(0.0, b[1] - max(lo_f - fb, 0.0)) / fb if fb else 0.0,
             max(0.0, min(hi_f + fb, MAXF) - b[3]) / fb if fb else 0.0]
    worst = max(short)
    if worst > 0:
        # GEOS approximates a round cap by 8 segments per quadrant: an extreme lying between two vertices falls
        # short of the radius by at most 1 - cos(pi/32) < 0.5 %; anything larger is another defect
        if h.known(CAP_FINDING, worst <= 0.02):
            return True
        return h.fail("bounds extended by less than the requested buffer")
    return h.done(any=True)


def probe_geos_cap(params, timeout):
    """Re-evaluates the recorded input of a known finding on the real code (real shapely/GEOS): no solver is
    involved — the finding was seen while validating the bounds-level GEOS contract against the real library."""
    if CAP_FINDING in params.get("exclude", ()):
        return {"status": "confirmed", "queries": 0, "note": "recorded input excluded; nothing else is probed here"}
    h.PARAMS.clear()
    ok = ob_geos_cap(*CAP_INPUT)
    if ok:
        return {"status": "confirmed", "queries": 0, "note": "the recorded input no longer falls short"}
    return {"status": "refuted", "replay_fn": "ob_geos_cap", "args": [CAP_INPUT, {}], "queries": 0,
            "message": "LineString [[1,100],[2,300]] buffered by 0.5 s / 20 Hz: bounds extend by less than the buffers",
            "clause": "bounds extended by less than the requested buffer"}


ALL_TV = [("TimeStamp", 0), ("TimeInterval", 0), ("BoundingBox", 0), ("Point", 0), ("LineString", 0),
          ("Polygon", 0), ("MultiPoint", 0), ("MultiLineString", 0), ("MultiPolygon", 0)]


def plan():
    q = ("quick", "thorough")
    obs = []
    for tag, variant in ALL_TV:
        obs.append(Ob("negative-%s" % tag, ob_negative, "ieee", 200, dict(tag=tag, variant=variant), q,
                      twins=("rejected",)))
    for tag in ("TimeStamp", "TimeInterval", "BoundingBox"):
        obs.append(Ob("closed-form-exact-%s" % tag, ob_closed_form, "real", 400, dict(tag=tag), q,
                      twins=("clamped", "free")))
        obs.append(Ob("closed-form-ieee-%s" % tag, ob_closed_form_ieee, "ieee", 240 if tag == "TimeStamp" else 2400,
                      dict(tag=tag), q if tag == "TimeStamp" else ("thorough",), twins=("any",), twin_timeout=600))
    for tag, variant in ALL_TV:
        if tag in ("TimeStamp", "TimeInterval", "BoundingBox"):
            continue
        obs.append(Ob("geos-bounds-%s" % tag, ob_geos_bounds, "real", 1200, dict(tag=tag, variant=variant, abstract_geos=True),
                      q if tag in ("Point", "LineString", "Polygon") else ("thorough",), twins=("any",),
                      twin_timeout=300))
    obs.append(Ob("geos-cap-recorded-input", probe_geos_cap, "kx", 60, dict(), q, kind="py"))
    return obs


INFO = dict(
    functions=[
        "soundevent.geometry.operations: buffer_geometry (guard, dispatch), buffer_timestamp, buffer_interval, "
        "buffer_bounding_box_geometry",
        "soundevent.data.geometries validators (re-validation of the result)",
    ],
    bounds="negative-buffer guard: all nine types (<= 3 points), every double for both buffers; closed-form types "
    "(TimeStamp, TimeInterval, BoundingBox): coordinates/buffers <= 1e9 in exact real arithmetic incl. monotonicity, "
    "and every finite double coordinate with every non-negative double buffer (incl. +inf) for validity, containment "
    "and the exact widened result in IEEE-754",
    trusted_base=["models/pyd.py", "models/shp.py (only reached for the guard)", "CrossHair 0.0.110 + z3"],
    outside=[
        "the six GEOS-buffered types (Point, LineString, Polygon, MultiPoint, MultiLineString, MultiPolygon): only "
        "their BOUNDS are reasoned about (geos-bounds-*): GEOS buffer and clip_by_rect are abstracted by their "
        "bounding rectangles (each side of bbox(buffer(g, d)) lies between 0.98 d and 5 d outside bbox(g), amounts "
        "chosen by the solver; clipping intersects rectangles), which decides 'stays in the domain', 'contains the "
        "original bounds' and 'bounds extend by at least 98% of the buffers (clipped)' for the glue around GEOS; the "
        "literal 'at least the requested buffers' fails on real GEOS by the polygonal approximation of round caps "
        "(observed: buffer 0.5 -> extension 0.49999973; buffer 2.5 -> 2.498) and is not decided; point-wise containment, the exact shape, monotonicity and the validity of GEOS's own output are NOT "
        "decided",
    ],
)
