"""C10 — crowsetta conversions preserve times, frequencies, labels and order.
Real code: io/crowsetta/{segment,bbox,sequence,annotation,labels}.py (all but
Recording.from_file)."""

from __future__ import annotations

from vf import h
from vf.plan import Ob

h.setup(
    fakes=("pydantic", "shp", "cws"),
    modules=("soundevent.data", "soundevent.io.crowsetta"),
    real_first=("numpy", "xarray", "rasterio.features", "scipy.sparse.csgraph", "matplotlib.pyplot", "crowsetta"),
    fmt_cut=False,  # label strings are the subject here
)

from soundevent import data  # noqa: E402
from soundevent.io import crowsetta as X  # noqa: E402
from soundevent.io.crowsetta import bbox as XB  # noqa: E402
from soundevent.io.crowsetta import labels as XL  # noqa: E402
from soundevent.io.crowsetta import segment as XS  # noqa: E402

from props import geo  # noqa: E402

if h.MODEL:
    from models import cws as _cws

    CW = _cws.crowsetta
else:
    import crowsetta as CW

KEYS = ["species", "call", "crowsetta"]
VALS = ["a", "bb", ""]


def _pick(v, n):
    for k in range(n):
        if v == k:
            return k
    raise _Vac()


class _Vac(Exception):
    pass


def _rec(sr, te, dur=100.0):
    return data.Recording(uuid=h.U(1), path="/d/a.wav", duration=dur, channels=1, samplerate=sr, time_expansion=te)


def _segment(label, onset_s, offset_s, onset_sample, offset_sample):
    return CW.Segment.from_keyword(label=label, onset_s=onset_s, offset_s=offset_s, onset_sample=onset_sample,
                                   offset_sample=offset_sample)


# ---- import -----------------------------------------------------------------


def ob_import_segment(on_s: float, off_s: float, on_k: int, off_k: int, te: float, seconds: bool, adjust: bool,
                      lab: int) -> bool:
    """
    pre: 0 <= on_s <= off_s <= 1000
    pre: 0 <= on_k <= off_k <= 1000000
    pre: 0.01 <= te <= 100
    post: _
    """
    sr = h.P("sr")
    try:
        label = (VALS + ["__empty__"])[_pick(lab, 4)]
    except _Vac:
        return True
    rec = _rec(sr, te)
    seg = _segment(label, on_s if seconds else None, off_s if seconds else None, on_k, off_k)
    ann = XS.segment_to_annotation(seg, rec, adjust_time_expansion=adjust)
    g = ann.sound_event.geometry
    if g.type != "TimeInterval" or ann.sound_event.recording is not rec and not (ann.sound_event.recording == rec):
        return h.fail("segment not imported as a time interval on the recording")
    # seconds in the file's own time base (file samplerate = recording samplerate / expansion)
    if seconds:
        s_file, e_file = on_s, off_s
    else:
        s_file, e_file = on_k * te / sr, off_k * te / sr
    scale = te if (adjust and te != 1) else 1
    if not (g.coordinates[0] * scale == s_file and g.coordinates[1] * scale == e_file):
        return h.fail("onset/offset not divided by the time-expansion factor exactly once")
    want = [] if label == "__empty__" else [("crowsetta", label)]
    got = [(t.term.label, t.value) for t in ann.tags]
    if got != want:
        return h.fail("label cascade: default tags wrong")
    return h.done(seconds=seconds, samples=not seconds, expanded=(te != 1 and adjust), empty=(label == "__empty__"))


def ob_import_bbox(on: float, off: float, lo: float, hi: float, te: float, adjust: bool) -> bool:
    """
    pre: 0 <= on < off <= 1000
    pre: 0 <= lo < hi <= 1000
    pre: 0.01 <= te <= 100
    post: _
    """
    rec = _rec(h.P("sr"), te)
    box = CW.BBox(onset=on, offset=off, low_freq=lo, high_freq=hi, label="a")
    ann = XB.bbox_to_annotation(box, rec, adjust_time_expansion=adjust)
    g = ann.sound_event.geometry
    if g.type != "BoundingBox":
        return h.fail("bbox not imported as a bounding box")
    c = g.coordinates
    k = te if (adjust and te != 1) else 1
    if not (c[0] * k == on and c[2] * k == off):
        return h.fail("onset/offset not divided by the time-expansion factor exactly once")
    if not (c[1] == lo * k and c[3] == hi * k):
        return h.fail("frequencies not multiplied by the time-expansion factor exactly once")
    if [(t.term.label, t.value) for t in ann.tags] != [("crowsetta", "a")]:
        return h.fail("label cascade: default tags wrong")
    return h.done(expanded=(k != 1), plain=(k == 1))


def ob_label_to_tags(lab: int, use_fn: int, use_term_map: bool, use_tag_map: bool, use_key_map: bool, use_key: bool,
                     use_term: bool, in_maps: bool) -> bool:
    """
    pre: 0 <= use_fn <= 2
    post: _
    """
    try:
        label = (["a", "__empty__"] + VALS[1:] + ["zzz"])[_pick(lab, h.P("nlabels", 5))]
    except _Vac:
        return True
    T = lambda k: data.Term(label=k, name="x:" + k, definition="d")  # noqa: E731
    fn_tag = data.Tag(term=T("fn"), value="from-fn")
    map_tag = data.Tag(term=T("map"), value="from-map")

    def tag_fn(lbl):
        if use_fn == 2:
            raise ValueError("no tag for label")
        return fn_tag

    mapped = label if in_maps else "other"
    kw = {}
    if use_fn:
        kw["tag_fn"] = tag_fn
    if use_term_map:
        kw["term_mapping"] = {mapped: T("term-map")}
    if use_tag_map:
        kw["tag_mapping"] = {mapped: [map_tag, fn_tag]}
    if use_key_map:
        kw["key_mapping"] = {mapped: "key-map"}
    if use_key:
        kw["key"] = "the-key"
    if use_term:
        kw["term"] = T("the-term")
    got = XL.label_to_tags(label, **kw)
    got = [(t.term.label, t.value) for t in got]
    # the documented cascade
    if label == "__empty__":
        want = []
    elif use_fn == 1:
        want = [("fn", "from-fn")]
    elif use_term_map and in_maps:
        want = [("term-map", label)]
    elif use_term:
        want = [("the-term", label)]
    elif use_tag_map and in_maps:
        want = [("map", "from-map"), ("fn", "from-fn")]
    elif use_key_map:
        # a key mapping replaces the explicit key for labels it knows; unknown labels fall back
        want = [("key-map" if in_maps else "crowsetta", label)]
    elif use_key:
        want = [("the-key", label)]
    else:
        want = [("crowsetta", label)]
    if got != want:
        return h.fail("label_to_tags departs from the documented cascade")
    return h.done(empty=(label == "__empty__"), fn=(use_fn == 1), mapped=(in_maps and (use_term_map or use_tag_map)),
                  fallback=(want == [("crowsetta", label)]))


# ---- export -----------------------------------------------------------------


def _tags(codes):
    return [data.Tag(term=data.Term(label=KEYS[c % 3], name="k:" + KEYS[c % 3], definition="d"), value=VALS[c // 3])
            for c in codes]


def ob_label_from_tags(n: int, c0: int, c1: int, c2: int, value_only: int, idx: int, key: int,
                       use_map: bool, use_fn: bool) -> bool:
    """
    pre: -3 <= idx <= 3
    pre: 0 <= value_only <= 2
    post: _
    """
    how = h.P("how")
    # only the options relevant for this selection mode are symbolic (unused arguments cost no paths)
    if how in (2, 3) or not h.P("vary_tag_opts", True):
        use_map = use_fn = False
    if how == 3:
        value_only = 0
    if how != 2:
        idx = 0
    try:
        k = _pick(n, 1 + h.P("maxn", 2))
        # 6 codes: keys {species, call, crowsetta} x values {"a", "bb"}
        codes = [_pick(c, 6) for c in (c0, c1, c2)][:k]
        sel = KEYS[_pick(key, 2)] if how == 1 else KEYS[0]
    except _Vac:
        return True
    tags = _tags(codes)
    kw = {}
    if value_only:
        kw["value_only"] = value_only == 2
    sep2 = "="
    kw["separator"] = "," if how != 1 else ","
    label_sep = ":"
    mapping = {tags[0]: "MAPPED"} if (use_map and tags) else None
    if mapping is not None:
        kw["label_mapping"] = mapping
    if use_fn:
        kw["label_fn"] = lambda t: "FN(" + t.value + ")"

    def one(t, force_value_only=False):
        if use_fn:
            return "FN(" + t.value + ")"
        if mapping is not None and t == tags[0]:
            return "MAPPED"
        if force_value_only or value_only == 2:
            return t.value
        return t.term.label + label_sep + t.value

    try:
        if how == 0:  # join
            kw2 = dict(kw)
            kw2.pop("separator")
            got = XL.label_from_tags(tags, separator=sep2, **kw2)
            want = "__empty__" if not tags else sep2.join(one(t) for t in tags)
        elif how == 1:  # select by key
            kw2 = dict(kw)
            kw2.pop("separator")
            got = XL.label_from_tags(tags, select_by_key=sel, **kw2)
            hit = [t for t in tags if t.term.label == sel]
            want = "__empty__" if not hit else one(hit[0], force_value_only=True)
        elif how == 2:  # index modulo length
            kw2 = dict(kw)
            kw2.pop("separator")
            got = XL.label_from_tags(tags, index=idx, **kw2)
            want = "__empty__" if not tags else one(tags[idx % len(tags)])
        else:  # sequence label function wins
            got = XL.label_from_tags(tags, seq_label_fn=lambda ts: "SEQ%d" % len(ts), index=idx)
            want = "SEQ%d" % len(tags)
    except TypeError as e:
        return h.fail("legal option combination raises TypeError: " + str(e)[:60])
    if got != want:
        return h.fail("label_from_tags departs from the documented cascade")
    return h.done(join=(how == 0 and len(tags) > 1), bykey=(how == 1 and bool(tags)), index=(how == 2 and bool(tags)),
                  empty=(not tags))


def _geom(tag, variant, v):
    if not geo.all_finite(geo.used(tag, variant, v)):
        return None
    return geo.make(data, tag, variant, v)


def _annotation(g, sr, codes=(0,)):
    rec = _rec(sr, 1.0)
    se = data.SoundEvent(uuid=h.U(5), geometry=g, recording=rec)
    return data.SoundEventAnnotation(uuid=h.U(6), sound_event=se, tags=_tags(codes), created_on=h.DT(1))


def ob_export_segment(p0: float, p1: float, p2: float, p3: float, p4: float, p5: float, cast: bool) -> bool:
    """
    pre: p0 <= 1000 and p2 <= 1000 and p4 <= 1000
    post: _
    """
    tag, variant, sr = h.P("tag"), h.P("variant"), h.P("sr")
    P = [p0, p1, p2, p3, p4, p5]
    g = _geom(tag, variant, P)
    if g is None:
        return True
    ann = _annotation(g, sr)
    e = geo.extent(tag, variant, P)
    try:
        seg = XS.segment_from_annotation(ann, cast_to_segment=cast, value_only=True)
    except ValueError:
        if tag != "TimeInterval" and not cast:
            return h.done(ok=False, refused=True)
        return h.fail("convertible geometry refused")
    if tag != "TimeInterval" and not cast:
        return h.fail("non-interval geometry converted although casting is off")
    if not (seg.onset_s == e[0] and seg.offset_s == e[2]):
        return h.fail("segment does not span the geometry's time bounds")
    for k, t in ((seg.onset_sample, e[0]), (seg.offset_sample, e[2])):
        if not (k <= t * sr and t * sr < k + 1):
            return h.fail("sample index is not floor(time x samplerate)")
    if seg.label != "a":
        return h.fail("label wrong")
    return h.done(ok=True, refused=False)


def ob_export_bbox(p0: float, p1: float, p2: float, p3: float, p4: float, p5: float, cast: bool,
                   raise_time: bool) -> bool:
    """
    pre: p0 <= 1000 and p2 <= 1000 and p4 <= 1000
    post: _
    """
    tag, variant, sr = h.P("tag"), h.P("variant"), h.P("sr")
    P = [p0, p1, p2, p3, p4, p5]
    g = _geom(tag, variant, P)
    if g is None:
        return True
    ann = _annotation(g, sr)
    e = geo.extent(tag, variant, P)
    nyq = sr / 2
    hi = e[3] if e[3] <= nyq else nyq
    time_only = tag in ("TimeInterval", "TimeStamp")
    must_refuse = (tag != "BoundingBox" and not cast) or (time_only and raise_time)
    degenerate = not (e[0] < e[2]) or not (e[1] < hi)  # crowsetta itself rejects empty boxes
    try:
        box = XB.bbox_from_annotation(ann, cast_to_bbox=cast, raise_on_time_geometries=raise_time, value_only=True)
    except ValueError:
        if must_refuse or degenerate:
            return h.done(ok=False, refused=True, capped=False)
        return h.fail("convertible geometry refused")
    if must_refuse:
        return h.fail("geometry converted although the options ask to refuse it")
    if not (box.onset == e[0] and box.offset == e[2] and box.low_freq == e[1]):
        return h.fail("bbox does not span the geometry's bounds")
    if not (box.high_freq == hi):
        return h.fail("upper frequency not capped at the Nyquist frequency")
    return h.done(ok=True, refused=False, capped=(e[3] > nyq))


def ob_sequence_policy(k0: int, k1: int, k2: int, n: int, ignore: bool, cast: bool, fmt: int) -> bool:
    """
    pre: 0 <= fmt <= 1
    post: _
    """
    # kinds: 0 = TimeInterval, 1 = BoundingBox, 2 = no geometry, 3 = TimeStamp (zero extent)
    try:
        m = _pick(n, 1 + h.P("maxn", 3))
        kinds = [_pick(k, 4) for k in (k0, k1, k2)][:m]
    except _Vac:
        return True
    sr = 8000
    rec = _rec(sr, 1.0)
    anns = []
    for i, k in enumerate(kinds):
        t0 = 1.0 + i
        g = [data.TimeInterval(coordinates=[t0, t0 + 0.5]), data.BoundingBox(coordinates=[t0, 100.0, t0 + 0.5, 200.0]),
             None, data.TimeStamp(coordinates=t0)][k]
        se = data.SoundEvent(uuid=h.U(20 + i), geometry=g, recording=rec)
        anns.append(data.SoundEventAnnotation(uuid=h.U(30 + i), sound_event=se, tags=_tags([i]), created_on=h.DT(1)))
    clip = data.Clip(uuid=h.U(9), recording=rec, start_time=0.0, end_time=10.0)
    ca = data.ClipAnnotation(uuid=h.U(10), clip=clip, sound_events=anns, created_on=h.DT(1))
    as_bbox = fmt == 0

    def convertible(k):
        if k == 2:
            return False
        if as_bbox:
            # time-only geometries are refused (raise_on_time_geometries defaults to True)
            return k == 1
        return k == 0 or cast

    ok = [convertible(k) for k in kinds]
    try:
        out = X.annotation_from_clip_annotation(ca, "/d/a.csv", "bbox" if as_bbox else "seq", ignore_errors=ignore,
                                                cast_geometry=cast, value_only=True)
    except ValueError:
        if all(ok) or ignore:
            if as_bbox and ignore and not any(ok):
                return h.done(all=False, skipped=False, raised=True)  # crowsetta: an Annotation needs content
            return h.fail("conversion raised although every event is convertible or errors are ignored")
        return h.done(all=False, skipped=False, raised=True)
    if not all(ok) and not ignore:
        return h.fail("unconvertible event did not raise although errors are not ignored")
    items = list(getattr(out, "bboxes", [])) if as_bbox else list(out.seq.segments)
    want = [i for i, good in enumerate(ok) if good]
    if len(items) != len(want):
        return h.fail("number of exported elements differs from the number of convertible events")
    for it, i in zip(items, want):
        onset = it.onset if as_bbox else it.onset_s
        if not (onset == 1.0 + i and it.label == VALS[i // 3]):
            return h.fail("exported elements out of order / wrong label")
    return h.done(all=all(ok) and m > 0, skipped=(not all(ok)), raised=False)


def ob_roundtrip(on0: float, d0: float, lo0: float, b0: float, on1: float, d1: float, lo1: float, b1: float,
                 n: int, l0: int, l1: int, fmt: int) -> bool:
    """
    pre: 0 <= on0 <= 1000 and 0.001 <= d0 <= 10 and 0 <= lo0 <= 1000 and 0.001 <= b0 <= 1000
    pre: 0 <= on1 <= 1000 and 0.001 <= d1 <= 10 and 0 <= lo1 <= 1000 and 0.001 <= b1 <= 1000
    pre: 0 <= fmt <= 1
    post: _
    """
    try:
        m = _pick(n, 3)
        labs = [VALS[_pick(v, 2)] for v in (l0, l1)][:m]
    except _Vac:
        return True
    sr = 44100
    rec = _rec(sr, 1.0)
    rows = [(on0, on0 + d0, lo0, lo0 + b0), (on1, on1 + d1, lo1, lo1 + b1)][:m]
    as_bbox = fmt == 0
    if as_bbox:
        if m == 0:
            return True
        src = CW.Annotation(annot_path="/d/a.csv", notated_path=rec.path,
                            bboxes=[CW.BBox(onset=r[0], offset=r[1], low_freq=r[2], high_freq=r[3], label=lb)
                                    for r, lb in zip(rows, labs)])
    else:
        src = CW.Annotation(annot_path="/d/a.csv", notated_path=rec.path,
                            seq=CW.Sequence.from_segments([_segment(lb, r[0], r[1], None, None)
                                                           for r, lb in zip(rows, labs)]))
    ca = X.annotation_to_clip_annotation(src, recording=rec)
    if len(ca.sound_events) != m:
        return h.fail("import: not one sound event annotation per element")
    if not as_bbox and (len(ca.sequences) != 1 or len(ca.sequences[0].sequence.sound_events) != m):
        return h.fail("import: sequence annotation does not list the elements")
    back = X.annotation_from_clip_annotation(ca, "/d/a.csv", "bbox" if as_bbox else "seq", ignore_errors=False,
                                             value_only=True)
    items = list(getattr(back, "bboxes", [])) if as_bbox else list(back.seq.segments)
    if len(items) != m:
        return h.fail("export after import changes the number of elements")
    for it, r, lb in zip(items, rows, labs):
        if as_bbox:
            nyq = sr / 2
            if not (it.onset == r[0] and it.offset == r[1] and it.low_freq == r[2]
                    and it.high_freq == (r[3] if r[3] <= nyq else nyq)):
                return h.fail("export after import does not reproduce the bounding box")
        else:
            if not (it.onset_s == r[0] and it.offset_s == r[1]):
                return h.fail("export after import does not reproduce onset/offset")
        want = lb if lb != "" else "__empty__" if False else lb
        if it.label != want:
            return h.fail("export after import does not reproduce the label")
    return h.done(two=(m == 2), one=(m == 1))


ALL_TV = [("TimeStamp", 0), ("TimeInterval", 0), ("BoundingBox", 0), ("Point", 0), ("LineString", 0),
          ("Polygon", 0), ("MultiPoint", 1), ("MultiLineString", 0), ("MultiPolygon", 0)]


def plan():
    q = ("quick", "thorough")
    obs = []
    for sr in (8000, 44100, 192000):
        tiers = q if sr == 44100 else ("thorough",)
        obs.append(Ob("import-segment-sr%d" % sr, ob_import_segment, "real", 900, dict(sr=sr), tiers,
                      twins=("seconds", "samples", "expanded", "empty"), twin_timeout=200))
        obs.append(Ob("import-bbox-sr%d" % sr, ob_import_bbox, "real", 600, dict(sr=sr), tiers,
                      twins=("expanded", "plain"), twin_timeout=200))
    obs.append(Ob("label-to-tags", ob_label_to_tags, "real", 1800, dict(nlabels=2), q,
                  twins=("empty", "fn", "mapped", "fallback"), twin_timeout=200))
    obs.append(Ob("label-to-tags-5labels", ob_label_to_tags, "real", 3000, dict(nlabels=5), ("thorough",),
                  twins=("fn",), twin_timeout=200))
    for how, nm, tw in ((0, "join", ("join", "empty")), (1, "bykey", ("bykey", "empty")), (2, "index", ("index", "empty")),
                        (3, "seqfn", ("empty",))):
        obs.append(Ob("label-from-tags-" + nm, ob_label_from_tags, "real", 1200,
                      dict(how=how, maxn=2, vary_tag_opts=(how == 0)), q, twins=tw, twin_timeout=300))
        obs.append(Ob("label-from-tags-%s-n3" % nm, ob_label_from_tags, "real", 6000, dict(how=how, maxn=3),
                      ("thorough",), twins=tw[:1], twin_timeout=300))
    for tag, variant in ALL_TV:
        tiers = q if tag in ("TimeInterval", "BoundingBox", "TimeStamp", "LineString") else ("thorough",)
        obs.append(Ob("export-segment-%s" % tag, ob_export_segment, "real", 900,
                      dict(tag=tag, variant=variant, sr=44100), tiers,
                      twins=("ok",) if tag == "TimeInterval" else ("ok", "refused"), twin_timeout=200))
        if tag in ("BoundingBox", "TimeInterval"):
            # odd samplerate: the Nyquist frequency is not a whole number
            obs.append(Ob("export-bbox-%s-sr11025" % tag, ob_export_bbox, "real", 900,
                          dict(tag=tag, variant=variant, sr=11025), q,
                          twins=("ok", "refused", "capped") if tag == "BoundingBox" else ("ok", "refused"),
                          twin_timeout=200))
        obs.append(Ob("export-bbox-%s" % tag, ob_export_bbox, "real", 900, dict(tag=tag, variant=variant, sr=44100),
                      tiers, twins=("refused",) if tag in ("TimeStamp", "Point") else ("ok", "refused", "capped")
                      if tag not in ("TimeInterval",) else ("ok", "refused"), twin_timeout=200))
    obs.append(Ob("sequence-error-policy-n2", ob_sequence_policy, "real", 1200, dict(maxn=2), q,
                  twins=("all", "skipped", "raised"), twin_timeout=300))
    obs.append(Ob("sequence-error-policy-n3", ob_sequence_policy, "real", 6000, dict(maxn=3), ("thorough",),
                  twins=("all",), twin_timeout=300))
    obs.append(Ob("roundtrip-export-import", ob_roundtrip, "real", 1800, {}, q, twins=("two", "one"), twin_timeout=300))
    return obs


INFO = dict(
    functions=[
        "soundevent.io.crowsetta.segment: segment_to_annotation, segment_from_annotation, "
        "convert_geometry_to_interval, convert_time_to_sample, create_crowsetta_segment",
        "soundevent.io.crowsetta.bbox: bbox_to_annotation, bbox_from_annotation, convert_geometry_to_bbox",
        "soundevent.io.crowsetta.sequence: sequence_to_annotations, sequence_from_annotations",
        "soundevent.io.crowsetta.annotation: annotation_to_clip_annotation (recording given), "
        "annotation_from_clip_annotation",
        "soundevent.io.crowsetta.labels: label_to_tags, label_from_tag, label_from_tags",
    ],
    bounds="times <= 1000 s, sample indices <= 1e6, time expansion in [0.01, 100], samplerates 8000/44100/192000 "
    "(and 11025 for the Nyquist cap) (exact real arithmetic); every geometry type (bounded shapes) for export; label options: every combination of "
    "function / term mapping / tag mapping / key mapping / key / term / value_only / label mapping / label function / "
    "select_by_key / index in [-4,4] / join over <= 3 tags from a pool of 9 (key, value) pairs incl. the empty "
    "value; sequences and annotations of <= 3 elements with every convertibility pattern and both error policies",
    trusted_base=["models/pyd.py", "models/shp.py (bounds)",
                  "models/cws.py (crowsetta records + crowsetta's own argument checks)", "CrossHair 0.0.110 + z3"],
    outside=["annotation_to_clip_annotation(recording=None) (reads the audio file)", "IEEE rounding of the divisions "
             "and multiplications by the expansion factor", "separators other than ':' '=' ','"],
)
