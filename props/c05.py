"""C05 — bounds, geometric features and anchor points agree with the
coordinates.  Real code: geometry/conversion.py (all), operations.py
compute_bounds / get_geometry_point, features.py (all)."""

from __future__ import annotations

from vf import h, sym
from vf.plan import Ob

h.setup(
    fakes=("pydantic", "shp"),
    modules=("soundevent.data", "soundevent.geometry.operations", "soundevent.geometry.features",
             "soundevent.geometry.conversion"),
    real_first=("numpy", "xarray", "rasterio.features", "scipy.sparse.csgraph", "matplotlib.pyplot"),
)

from soundevent import data  # noqa: E402
from soundevent.geometry import conversion as conv  # noqa: E402
from soundevent.geometry import features as feats  # noqa: E402
from soundevent.geometry import operations as ops  # noqa: E402

from props import geo  # noqa: E402

KIND = {
    "TimeStamp": "LineString",
    "TimeInterval": "Polygon",
    "BoundingBox": "Polygon",
    "Point": "Point",
    "LineString": "LineString",
    "Polygon": "Polygon",
    "MultiPoint": "MultiPoint",
    "MultiLineString": "MultiLineString",
    "MultiPolygon": "MultiPolygon",
}


def _geom(tag, variant, v):
    if not geo.all_finite(geo.used(tag, variant, v)):
        return None
    if tag == "Polygon" and variant == 1 and not geo.hole_inside(v):
        return None
    return geo.make(data, tag, variant, v)


def _same_pts(got, exp):
    got = [tuple(p) for p in got]
    if len(got) != len(exp):
        return False
    for g, e in zip(got, exp):
        if len(g) != 2 or not (g[0] == e[0] and g[1] == e[1]):
            return False
    return True


def _ring(got, exp):
    """a ring as shapely reports it: the given vertices, in order, followed only by repetitions of the first
    vertex (GEOS closes a ring and pads it to four coordinates)"""
    exp = [tuple(p) for p in exp]
    got = [tuple(p) for p in got]
    if len(got) < len(exp) or len(got) > len(exp) + 2:
        return False
    if not _same_pts(got[: len(exp)], exp):
        return False
    for p in got[len(exp):]:
        if not (p[0] == exp[0][0] and p[1] == exp[0][1]):
            return False
    if not (got[-1][0] == got[0][0] and got[-1][1] == got[0][1]):
        return False
    return True


def _box_ring(got, a, b, c, d):
    """every vertex is a corner of the rectangle (a,b)-(c,d) and both x and
    both y values occur (any orientation / start; GEOS returns 4 vertices
    for a zero-width rectangle, 5 otherwise)"""
    got = [tuple(p) for p in got]
    if not 4 <= len(got) <= 5:
        return False
    for (x, y) in got:
        if not ((x == a or x == c) and (y == b or y == d)):
            return False
    xs = sym.lo([p[0] for p in got]) == sym.fmin(a, c) and sym.hi([p[0] for p in got]) == sym.fmax(a, c)
    ys = sym.lo([p[1] for p in got]) == sym.fmin(b, d) and sym.hi([p[1] for p in got]) == sym.fmax(b, d)
    return xs and ys


def _conversion_ok(tag, variant, g, s):
    c = g.coordinates
    if s.geom_type != KIND[tag]:
        return False
    if tag == "TimeStamp":
        return _same_pts(s.coords, [(c, 0), (c, geo.MAXF)])
    if tag == "TimeInterval":
        return _box_ring(s.exterior.coords, c[0], 0, c[1], geo.MAXF) and len(s.interiors) == 0
    if tag == "BoundingBox":
        return _box_ring(s.exterior.coords, c[0], c[1], c[2], c[3]) and len(s.interiors) == 0
    if tag == "Point":
        return _same_pts(s.coords, [c])
    if tag == "LineString":
        return _same_pts(s.coords, c)
    if tag == "Polygon":
        if not _ring(s.exterior.coords, c[0]) or len(s.interiors) != len(c) - 1:
            return False
        for got, exp in zip(s.interiors, c[1:]):
            if not _ring(got.coords, exp):
                return False
        return True
    parts = list(s.geoms)
    if len(parts) != len(c):
        return False
    for part, exp in zip(parts, c):
        if tag == "MultiPoint":
            if part.geom_type != "Point" or not _same_pts(part.coords, [exp]):
                return False
        elif tag == "MultiLineString":
            if part.geom_type != "LineString" or not _same_pts(part.coords, exp):
                return False
        else:
            if part.geom_type != "Polygon" or not _ring(part.exterior.coords, exp[0]):
                return False
            if len(part.interiors) != len(exp) - 1:
                return False
    return True


def ob_bounds(
    p0: float, p1: float, p2: float, p3: float, p4: float, p5: float,
    p6: float, p7: float, p8: float, p9: float, p10: float, p11: float,
) -> bool:
    """
    post: _
    """
    tag, variant = h.P("tag"), h.P("variant")
    P = [p0, p1, p2, p3, p4, p5, p6, p7, p8, p9, p10, p11]
    g = _geom(tag, variant, P)
    if g is None:
        return True
    e = geo.extent(tag, variant, P)
    b = ops.compute_bounds(g)
    if len(b) != 4 or not (b[0] == e[0] and b[1] == e[1] and b[2] == e[2] and b[3] == e[3]):
        return h.fail("compute_bounds differs from (min t, min f, max t, max f)")
    if not (b[0] <= b[2] and b[1] <= b[3]):
        return h.fail("bounds not ordered")
    s = conv.geometry_to_shapely(g)
    if not _conversion_ok(tag, variant, g, s):
        return h.fail("shapely conversion does not preserve kind/coordinates")
    degenerate = sym.bor(e[0] == e[2], e[1] == e[3])
    return h.done(any=True, degenerate=degenerate, proper=sym.bnot(degenerate))


def _feature(fs, term):
    hit = [f for f in fs if f.term == term]
    if len(hit) != 1:
        return None
    return hit[0].value


def ob_features(
    p0: float, p1: float, p2: float, p3: float, p4: float, p5: float,
    p6: float, p7: float, p8: float, p9: float, p10: float, p11: float,
) -> bool:
    """
    post: _
    """
    from soundevent import terms

    tag, variant = h.P("tag"), h.P("variant")
    P = [p0, p1, p2, p3, p4, p5, p6, p7, p8, p9, p10, p11]
    g = _geom(tag, variant, P)
    if g is None:
        return True
    e = geo.extent(tag, variant, P)
    fs = feats.compute_geometric_features(g)
    names = [f.term.name for f in fs]
    if len(set(names)) != len(names):
        return h.fail("duplicate feature terms")
    d = _feature(fs, terms.duration)
    if d is None or not (d == e[2] - e[0]):
        return h.fail("duration differs from end - start")
    time_only = tag in ("TimeStamp", "TimeInterval")
    lowf = _feature(fs, terms.low_freq)
    highf = _feature(fs, terms.high_freq)
    bw = _feature(fs, terms.bandwidth)
    if not time_only:
        if lowf is None or highf is None or bw is None:
            return h.fail("frequency features missing")
    if lowf is not None and not (lowf == e[1]):
        return h.fail("lowest frequency differs from the bounds")
    if highf is not None and not (highf == e[3]):
        return h.fail("highest frequency differs from the bounds")
    if bw is not None and not (bw == e[3] - e[1]):
        return h.fail("bandwidth differs from high - low")
    n = _feature(fs, terms.num_segments)
    if tag.startswith("Multi"):
        if n is None or n != len(g.coordinates):
            return h.fail("number of parts wrong")
    elif n is not None:
        return h.fail("number of parts reported for a single geometry")
    return h.done(any=True)


def _pos_expected(position, e):
    start, low, end, high = e
    if position == "center":
        y, x = "center", "center"
    else:
        y, x = position.split("-")
    t = {"left": start, "right": end}.get(x)
    if t is None:
        t = (start + end) / 2
    f = {"bottom": low, "top": high}.get(y)
    if f is None:
        f = (low + high) / 2
    return t, f


def ob_position(
    p0: float, p1: float, p2: float, p3: float, p4: float, p5: float,
    p6: float, p7: float, p8: float, p9: float, p10: float, p11: float,
) -> bool:
    """
    post: _
    """
    tag, variant, position = h.P("tag"), h.P("variant"), h.P("position")
    P = [p0, p1, p2, p3, p4, p5, p6, p7, p8, p9, p10, p11]
    g = _geom(tag, variant, P)
    if g is None:
        return True
    e = geo.extent(tag, variant, P)
    got = ops.get_geometry_point(g, position=position)
    t, f = _pos_expected(position, e)
    if len(got) != 2 or not (got[0] == t and got[1] == f):
        return h.fail("position %s is not the named corner/midpoint of the bounds" % position)
    if not (e[0] <= got[0] <= e[2] and e[1] <= got[1] <= e[3]):
        return h.fail("position outside the bounds")
    return h.done(any=True)


def ob_bad_position(t: float) -> bool:
    """
    pre: 0 <= t <= 1e6
    post: _
    """
    g = data.TimeStamp(coordinates=t)
    for name in ("left-bottom", "middle", "top", "bottom-centre", ""):
        try:
            ops.get_geometry_point(g, position=name)
        except ValueError:
            continue
        return h.fail("unknown position name accepted")
    return h.done(any=True)


CORNERS = ["bottom-left", "bottom-right", "top-left", "top-right"]
MIDS = ["center-left", "center-right", "top-center", "bottom-center", "center"]
ALL_TV = [("TimeStamp", 0), ("TimeInterval", 0), ("Point", 0), ("BoundingBox", 0), ("LineString", 0),
          ("LineString", 1), ("Polygon", 0), ("Polygon", 1), ("MultiPoint", 0), ("MultiPoint", 1),
          ("MultiLineString", 0), ("MultiLineString", 1), ("MultiPolygon", 0), ("MultiPolygon", 1)]
QUICK_TV = [("TimeStamp", 0), ("TimeInterval", 0), ("Point", 0), ("BoundingBox", 0), ("LineString", 0),
            ("Polygon", 0), ("MultiPoint", 1), ("MultiLineString", 0), ("MultiPolygon", 0)]
# shapes whose extreme coordinate can sit at an interior vertex / in a second part: features in the quick tier too
QUICK_FEATURES = [("LineString", 1), ("MultiLineString", 1), ("MultiPolygon", 1)]


def plan():
    q = ("quick", "thorough")
    obs = []
    for (tag, variant) in ALL_TV:
        tiers = q if (tag, variant) in QUICK_TV else ("thorough",)
        nm = "%s%d" % (tag, variant)
        tw = ("any",) if tag in ("TimeStamp", "TimeInterval") else ("degenerate", "proper")
        if (tag, variant) in (("Point", 0), ("MultiPoint", 0)):
            tw = ("degenerate",)
        obs.append(Ob("bounds-" + nm, ob_bounds, "ieee", 300, dict(tag=tag, variant=variant),
                      q if (tag, variant) in QUICK_FEATURES else tiers, twins=tw))
        obs.append(Ob("features-" + nm, ob_features, "real", 300, dict(tag=tag, variant=variant),
                      q if (tag, variant) in QUICK_FEATURES else tiers, twins=("any",)))
        for pos in CORNERS:
            tq = tiers if pos in ("bottom-left", "top-right") or variant == 0 and tag in ("BoundingBox", "LineString") else ("thorough",)
            obs.append(Ob("pos-%s-%s" % (pos, nm), ob_position, "ieee", 300,
                          dict(tag=tag, variant=variant, position=pos), tq, twins=("any",)))
        for pos in MIDS:
            tq = tiers if pos in ("center", "center-left", "top-center") and (tag, variant) in QUICK_TV[:6] else ("thorough",)
            obs.append(Ob("pos-%s-%s" % (pos, nm), ob_position, "real", 300,
                          dict(tag=tag, variant=variant, position=pos), tq, twins=("any",)))
    obs.append(Ob("bad-position", ob_bad_position, "ieee", 60, {}, q, twins=("any",)))
    return obs


INFO = dict(
    functions=[
        "soundevent.geometry.conversion: geometry_to_shapely + nine *_to_shapely",
        "soundevent.geometry.operations: compute_bounds, get_geometry_point",
        "soundevent.geometry.features: compute_geometric_features, _COMPUTE_FEATURES and the nine feature functions",
        "soundevent.data.geometries validators",
    ],
    bounds="geometry shapes: TimeStamp, TimeInterval, Point, BoundingBox, LineString(2-3 pts), Polygon(3 pts, 0-1 "
    "hole of 3 pts inside the shell's bounding box), MultiPoint(1-2), MultiLineString(1-2 lines x 2 pts), "
    "MultiPolygon(1-2 x 3 pts); every finite double per coordinate for bounds/conversion/corner positions "
    "(IEEE-754); features and midpoint positions in exact real arithmetic",
    trusted_base=[
        "models/pyd.py",
        "models/shp.py (constructors keep coordinates and kind; bounds = min/max over the shell / all points)",
        "CrossHair 0.0.110 + z3 (Float64 / Real)",
    ],
    outside=[
        "'centroid' and 'point_on_surface' (computed by GEOS): the clause 'lying inside the bounds' is not decided",
        "polygons whose hole leaves the shell's bounding box (invalid polygons; GEOS takes bounds from the shell)",
        "IEEE rounding inside duration/bandwidth/midpoints (mirrored expressions, decided over the reals)",
    ],
)
