"""C14 — clip segmentation tiles the clip on the hop lattice.
Real code: soundevent/operations.py segment_clip (+ data.Clip validation)."""

from __future__ import annotations

from vf import h
from vf.plan import Ob

h.setup(fakes=("pydantic",), modules=("soundevent.data", "soundevent.operations"))

from soundevent import data  # noqa: E402
from soundevent import operations as sops  # noqa: E402

if h.MODEL:
    import types
    import uuid as _real_uuid

    class U5(tuple):
        """uuid5 by contract: a deterministic, injective function of
        (namespace, name); collision-freedom of SHA-1 is assumed."""

        __slots__ = ()

    _fake_uuid = types.ModuleType("uuid")
    _fake_uuid.__dict__.update(vars(_real_uuid))
    _fake_uuid.uuid5 = lambda ns, name: U5((ns, name))
    sops.uuid = _fake_uuid


def _clip(s, e, uid=7):
    rec = data.Recording(uuid=h.U(1), path="a.wav", duration=1e6, channels=1, samplerate=8000)
    return data.Clip(uuid=h.U(uid), recording=rec, start_time=s, end_time=e)


def spec(s, e, duration, hop, inc, kmax):
    """the windows the statement asks for (at most kmax; None if more)"""
    out = []
    i = 0
    while True:
        start = s + i * hop
        if start >= e:
            return out
        if i >= kmax:
            return None
        end = start + duration
        if end > e:
            if not inc:
                return out
            end = e
        out.append((start, end))
        i += 1


def ob_segments(s: float, length: float, duration: float, hop: float, inc: bool) -> bool:
    """
    pre: 0 <= s <= 1000 and 0 <= length <= 1000
    pre: 0.001 <= duration <= 1000 and 0.001 <= hop <= 1000
    post: _
    """
    K = h.P("K")
    hop_none = h.P("hop_none", False)
    if hop_none:
        hop = duration
    if not length <= K * hop:
        return True  # unwinding assumption: at most K windows start inside the clip
    lo_k = h.P("kmin", 0)
    e = s + length
    exp = spec(s, e, duration, hop, inc, K)
    if exp is None:
        return True
    if len(exp) < lo_k:
        return True
    clip = _clip(s, e)
    segs = list(sops.segment_clip(clip, duration, hop=None if hop_none else hop, include_incomplete=inc))
    if len(segs) != len(exp):
        if len(segs) < len(exp):
            return h.fail("a window required by the statement is not produced")
        return h.fail("more windows than the statement allows")
    prev_end = None
    for i, (g, (a, b)) in enumerate(zip(segs, exp)):
        if not (g.start_time == a and g.end_time == b):
            return h.fail("window %d is not on the hop lattice / has the wrong end" % i)
        if not (g.start_time >= s and g.end_time <= e):
            return h.fail("window outside the parent clip")
        if g.recording is not clip.recording and not (g.recording == clip.recording):
            return h.fail("window of another recording")
        # "lasts exactly duration": end is start + duration (one rounded addition in doubles)
        if not (b == a + duration) and not (inc and b == e):
            return h.fail("window does not last exactly `duration`")
        prev_end = b
    if inc and hop <= duration and length > 0:
        # cover: contiguous (each starts no later than the previous ends) up to the clip end
        if not segs or not (segs[0].start_time == s and prev_end == e):
            return h.fail("segments do not cover the clip")
        for x, y in zip(segs, segs[1:]):
            if not (y.start_time <= x.end_time):
                return h.fail("gap between consecutive segments")
    # identifiers: deterministic, distinct within one call
    again = list(sops.segment_clip(clip, duration, hop=None if hop_none else hop, include_incomplete=inc))
    ids = [g.uuid for g in segs]
    if [g.uuid for g in again] != ids:
        return h.fail("identifiers are not deterministic")
    for i in range(len(ids)):
        for j in range(i + 1, len(ids)):
            if ids[i] == ids[j]:
                return h.fail("identifiers not distinct within one call")
    n = len(exp)
    truncated = n > 0 and exp[-1][1] != exp[-1][0] + duration
    return h.done(n0=(n == 0), n1=(n == 1), n2=(n == 2), n3=(n == 3), n4=(n == 4), truncated=truncated)


def ob_reject(s: float, length: float, duration: float, hop: float, inc: bool, which: int) -> bool:
    """
    pre: 0 <= s <= 1000 and 0 <= length <= 1000
    pre: -1000 <= duration <= 1000 and -1000 <= hop <= 1000
    pre: duration <= 0 or hop <= 0
    pre: 0 <= which <= 1
    post: _
    """
    clip = _clip(s, s + length)
    try:
        if which == 0:
            list(sops.segment_clip(clip, duration, hop=hop, include_incomplete=inc))
        else:
            if duration > 0:
                return True
            list(sops.segment_clip(clip, duration, include_incomplete=inc))
    except ValueError:
        return h.done(rejected=True)
    return h.fail("non-positive duration or hop accepted")


def plan():
    q = ("quick", "thorough")
    obs = [
        Ob("reject-nonpositive", ob_reject, "real", 120, {}, q, twins=("rejected",)),
        Ob("windows-K2", ob_segments, "real", 300, dict(K=2), q, twins=("n0", "n1", "n2", "truncated")),
        Ob("windows-K3-n3", ob_segments, "real", 600, dict(K=3, kmin=3), q, twins=("n3", "truncated")),
        Ob("windows-hopnone-K3", ob_segments, "real", 600, dict(K=3, hop_none=True), q, twins=("n3", "truncated")),
        Ob("windows-K4-n4", ob_segments, "real", 1800, dict(K=4, kmin=4), ("thorough",), twins=("n4",)),
        Ob("windows-hopnone-K5", ob_segments, "real", 1800, dict(K=5, hop_none=True, kmin=4), ("thorough",), twins=("n4",)),
    ]
    return obs


INFO = dict(
    functions=["soundevent.operations.segment_clip", "soundevent.data.clips.Clip (_validate_times, duration)"],
    bounds="clip start/length/duration/hop in [0.001, 1000] (start, length from 0), exact real arithmetic; unwinding "
    "assumption length <= K*hop with K = 2, 3 (quick) and 4, 5 (thorough), i.e. at most K windows start inside the "
    "clip; both settings of include_incomplete; hop given and hop=None",
    trusted_base=[
        "models/pyd.py",
        "uuid.uuid5 modelled as an injective function of (namespace, name); f-strings as injective tuples "
        "(repr(float) injective) — replayed with the real uuid5 and real formatting",
        "CrossHair 0.0.110 + z3 (Real / Int)",
    ],
    outside=["IEEE rounding of start + i*hop and of duration/hop (exact arithmetic only)", "more than K windows"],
)
