"""C04 — relational schema invariants cannot be bypassed at construction.
Real code: data/clip_evaluations.py (_check_clips_match, _check_matches),
matches.py (_validate_match), annotation_projects.py, clips.py
(_validate_times), and the ge/le constraints declared on the score fields."""

from __future__ import annotations

import json

from vf import h
from vf.plan import Ob

h.setup(fakes=("pydantic",), modules=("soundevent.data", "soundevent.io"))

from soundevent import data  # noqa: E402

from props import graph  # noqa: E402

if h.MODEL:
    from models import pyd as _pyd

    graph.install_mem_io()

    def _json(d):
        return _pyd.JsonDoc(d)
else:

    def _json(d):
        return json.dumps(d)


def _try(fn):
    try:
        return fn(), False
    except ValueError:
        return None, True


def _plain(o):
    """JSON-able structure of a data object"""
    return o.model_dump(mode="json")


def _construct(cls, kwargs, route):
    """(object, rejected) through one construction route"""
    if route == "ctor":
        return _try(lambda: cls(**kwargs))
    if route == "dict":
        return _try(lambda: cls.model_validate(dict(kwargs)))
    if route == "json":
        plain = {}
        for k, v in kwargs.items():
            if isinstance(v, (list, tuple)):
                plain[k] = [_plain(x) if hasattr(x, "model_dump") else x for x in v]
            elif hasattr(v, "model_dump"):
                plain[k] = _plain(v)
            elif v is None:
                plain[k] = None
            elif hasattr(v, "hex") and not isinstance(v, float):
                plain[k] = str(v) if not h.MODEL else v
            else:
                plain[k] = v
        return _try(lambda: cls.model_validate_json(_json(plain)))
    if route == "aoef":
        return _via_aoef(cls, kwargs)
    raise KeyError(route)


def _via_aoef(cls, kwargs):
    """AOEF loading as a construction route: the object is assembled WITHOUT validation (model_construct), placed in
    the smallest collection that can hold it, written with io.save and read back with io.load.  Rejected = io.load
    raises.  (If io.save itself cannot write the unvalidated object the path is skipped: there is no document.)"""
    raw = cls.model_construct(**kwargs)
    b = graph.Builder()
    f = graph.Fixed(False)
    name = cls.__name__
    if name == "AnnotationProject":
        coll = raw
    elif name == "Clip":
        coll = data.AnnotationSet(uuid=b.uid(), clip_annotations=[b.clip_annotation(raw, f)])
    elif name in ("PredictedTag", "SoundEventPrediction", "SequencePrediction"):
        rec = b.recording(5, f)
        clip = b.clip(rec, f)
        cp = data.ClipPrediction(uuid=b.uid(), clip=clip,
                                 tags=[raw] if name == "PredictedTag" else [],
                                 sound_events=[raw] if name == "SoundEventPrediction" else [],
                                 sequences=[raw] if name == "SequencePrediction" else [])
        coll = data.PredictionSet(uuid=b.uid(), clip_predictions=[cp])
    elif name == "Match":
        src = kwargs.get("source")
        rec = src.sound_event.recording
        clip = b.clip(rec, f)
        ce = data.ClipEvaluation.model_construct(
            uuid=b.uid(), annotations=b.clip_annotation(clip, f),
            predictions=data.ClipPrediction(uuid=b.uid(), clip=clip, sound_events=[src]), matches=[raw])
        coll = data.Evaluation.model_construct(uuid=b.uid(), created_on=h.DT(1), evaluation_task=h.S(1, "task"),
                                               clip_evaluations=[ce], metrics=[], score=None)
    elif name == "ClipEvaluation":
        # (pydantic re-runs a model's after-validators on a nested instance: the wrapper is unvalidated too)
        coll = data.Evaluation.model_construct(uuid=b.uid(), created_on=h.DT(1), evaluation_task=h.S(1, "task"),
                                               clip_evaluations=[raw], metrics=[], score=None)
    else:
        raise KeyError(name)
    from soundevent import io

    if h.MODEL:
        doc = graph.MemPath()
        try:
            io.save(coll, doc)
        except Exception:  # noqa
            raise graph.Vacuous()
        return _try(lambda: _unwrap(name, io.load(doc)))
    import os
    import tempfile

    d = tempfile.mkdtemp(prefix="verif_c04_")
    pth = os.path.join(d, "doc.json")
    try:
        try:
            io.save(coll, pth)
        except Exception:  # noqa
            raise graph.Vacuous()
        return _try(lambda: _unwrap(name, io.load(pth)))
    finally:
        if os.path.exists(pth):
            os.remove(pth)
        os.rmdir(d)


def _unwrap(name, coll):
    if name == "AnnotationProject":
        return coll
    if name == "Clip":
        return coll.clip_annotations[0].clip
    if name == "PredictedTag":
        return coll.clip_predictions[0].tags[0]
    if name == "SoundEventPrediction":
        return coll.clip_predictions[0].sound_events[0]
    if name == "SequencePrediction":
        return coll.clip_predictions[0].sequences[0]
    if name == "Match":
        return coll.clip_evaluations[0].matches[0]
    return coll.clip_evaluations[0]


# ---- scalar bounds ---------------------------------------------------------


def ob_score(x: float, none: bool) -> bool:
    """
    pre: x == x
    post: _
    """
    what, route = h.P("what"), h.P("route")
    b = graph.Builder()
    f = graph.Fixed(False)
    rec = b.recording(0, f)
    se = b.sound_event(rec, f)
    opt = what in ("match.score", "clip_evaluation.score")
    val = None if (opt and none) else x
    ok = val is None or (0 <= x <= 1)
    if what == "predicted_tag.score":
        o, rej = _construct(data.PredictedTag, dict(tag=b.tag(1), score=val), route)
    elif what == "sound_event_prediction.score":
        o, rej = _construct(data.SoundEventPrediction, dict(uuid=b.uid(), sound_event=se, score=val), route)
    elif what == "sequence_prediction.score":
        o, rej = _construct(data.SequencePrediction, dict(uuid=b.uid(), sequence=b.sequence([se], f), score=val), route)
    elif what == "match.affinity":
        o, rej = _construct(data.Match, dict(uuid=b.uid(), source=b.se_prediction(se, f), affinity=val), route)
    elif what == "match.score":
        o, rej = _construct(data.Match, dict(uuid=b.uid(), source=b.se_prediction(se, f), affinity=0.5, score=val), route)
    elif what == "clip_evaluation.score":
        clip = b.clip(rec, f)
        o, rej = _construct(data.ClipEvaluation, dict(uuid=b.uid(), annotations=b.clip_annotation(clip, f),
                                                     predictions=b.clip_prediction(clip, f), score=val), route)
    else:
        raise KeyError(what)
    if rej and ok:
        return h.fail("value in [0,1] rejected")
    if not rej and not ok:
        return h.fail("value outside [0,1] accepted")
    if not rej:
        name = what.split(".")[1]
        got = getattr(o, name)
        if not ((got is None and val is None) or got == val):
            return h.fail("stored value differs")
    return h.done(accepted=not rej, rejected=rej, edge=(not rej and val is not None and (x == 0 or x == 1)))


def ob_clip_times(s: float, e: float, missing: int) -> bool:
    """
    pre: s == s and e == e
    pre: 0 <= missing <= 0
    post: _
    """
    route = h.P("route")
    b = graph.Builder()
    rec = b.recording(0, graph.Fixed(False))
    o, rej = _construct(data.Clip, dict(uuid=b.uid(), recording=rec, start_time=s, end_time=e), route)
    ok = s <= e
    if rej and ok:
        return h.fail("clip with start <= end rejected")
    if not rej and not ok:
        return h.fail("clip that starts after it ends accepted")
    if not rej and not (o.start_time == s and o.end_time == e and o.start_time <= o.end_time):
        return h.fail("stored times differ")
    return h.done(accepted=not rej, rejected=rej, edge=(not rej and s == e))


def ob_match_sides(has_source: bool, has_target: bool, explicit_none: bool) -> bool:
    """
    post: _
    """
    route = h.P("route")
    b = graph.Builder()
    f = graph.Fixed(False)
    rec = b.recording(0, f)
    se = b.sound_event(rec, f)
    kw = dict(uuid=b.uid(), affinity=0.0)
    if has_source:
        kw["source"] = b.se_prediction(se, f)
    elif explicit_none:
        kw["source"] = None
    if has_target:
        kw["target"] = b.se_annotation(se, f)
    elif explicit_none:
        kw["target"] = None
    o, rej = _construct(data.Match, kw, route)
    ok = has_source or has_target
    if rej and ok:
        return h.fail("match with a side rejected")
    if not rej and not ok:
        return h.fail("match with neither source nor target accepted")
    return h.done(accepted=not rej, rejected=rej)


def ob_project(t0: int, t1: int, a0: int, a1: int, nt: int, na: int) -> bool:
    """
    pre: 0 <= t0 <= 2 and 0 <= t1 <= 2 and 0 <= a0 <= 2 and 0 <= a1 <= 2
    pre: 0 <= nt <= 2 and 0 <= na <= 2
    post: _
    """
    route = h.P("route")
    b = graph.Builder()
    f = graph.Fixed(False)
    rec = b.recording(0, f)
    clips = [b.clip(rec, f, 0.0, 1.0), b.clip(rec, f, 1.0, 2.0), b.clip(rec, f, 2.0, 3.0)]

    def pick(v):
        return [k for k in range(3) if v == k][0]

    fixed = h.P("fixed_counts")
    tsel = [pick(t0), pick(t1)][: (fixed[0] if fixed else [k for k in range(3) if nt == k][0])]
    asel = [pick(a0), pick(a1)][: (fixed[1] if fixed else [k for k in range(3) if na == k][0])]
    tasks = [b.task(clips[k], f) for k in tsel]
    anns = [b.clip_annotation(clips[k], f) for k in asel]
    o, rej = _construct(data.AnnotationProject,
                        dict(uuid=b.uid(), name=h.S(1, "proj"), tasks=tasks, clip_annotations=anns), route)
    ok = all(k in tsel for k in asel)
    if rej and ok:
        return h.fail("project whose annotations all have a task rejected")
    if not rej and not ok:
        return h.fail("project holding an annotation of a clip without a task accepted")
    return h.done(accepted=not rej, rejected=rej)


def ob_clip_evaluation(same_clip: bool, s0: int, t0: int, s1: int, t1: int, s2: int, t2: int) -> bool:
    """
    pre: 0 <= s0 <= 3 and 0 <= t0 <= 3 and 0 <= s1 <= 3 and 0 <= t1 <= 3 and 0 <= s2 <= 3 and 0 <= t2 <= 3
    post: _
    """
    route = h.P("route")
    n_ann, n_pred, n_m = h.P("n_ann"), h.P("n_pred"), h.P("n_m")
    b = graph.Builder()
    f = graph.Fixed(False)
    rec = b.recording(0, f)
    clip = b.clip(rec, f, 0.0, 1.0)
    other = b.clip(rec, f, 0.0, 1.0)  # same bounds, another clip
    ses = [b.sound_event(rec, f) for _ in range(3)]
    anns = [b.se_annotation(ses[i], f) for i in range(3)]  # index 2 = foreign
    preds = [b.se_prediction(ses[i], f) for i in range(3)]
    ca = b.clip_annotation(clip, f, anns[:n_ann])
    cp = b.clip_prediction(clip if same_clip else other, f, preds[:n_pred])

    dom = h.P("dom", 4)
    if h.P("fix_clip"):
        if not same_clip:
            return True

    def pick(v):
        hit = [k for k in range(dom) if v == k]
        if not hit:
            raise graph.Vacuous()
        return hit[0]

    # choice 0 = None, 1 = own[0], 2 = own[1], 3 = foreign
    def side(v, pool):
        k = pick(v)
        return None if k == 0 else pool[{1: 0, 2: 1, 3: 2}[k]]

    sel = [(s0, t0), (s1, t1), (s2, t2)][:n_m]
    matches = []
    srcs, tgts = [], []
    for (sv, tv) in sel:
        try:
            src, tgt = side(sv, preds), side(tv, anns)
        except graph.Vacuous:
            return True
        if src is None and tgt is None:
            return True  # such a match cannot exist (ob_match_sides)
        matches.append(data.Match(uuid=b.uid(), source=src, target=tgt, affinity=0.0))
        srcs.append(pick(sv))
        tgts.append(pick(tv))
    o, rej = _construct(data.ClipEvaluation, dict(uuid=b.uid(), annotations=ca, predictions=cp, matches=matches), route)

    def exactly_once(seen, n_own):
        own = [k for k in seen if k != 0]
        want = list(range(1, n_own + 1))
        return sorted(own) == want

    ok = same_clip and exactly_once(srcs, n_pred) and exactly_once(tgts, n_ann)
    if rej and ok:
        return h.fail("well-formed clip evaluation rejected")
    if not rej and not ok:
        return h.fail("malformed clip evaluation accepted")
    return h.done(accepted=not rej, rejected=rej)


ROUTES = ["ctor", "dict", "json"]
SCORES = ["predicted_tag.score", "sound_event_prediction.score", "sequence_prediction.score", "match.affinity",
          "match.score", "clip_evaluation.score"]


def plan():
    q = ("quick", "thorough")
    obs = []
    for route in ROUTES:
        for what in SCORES:
            tiers = q if route != "dict" or what in ("match.affinity",) else ("thorough",)
            obs.append(Ob("score-%s-%s" % (what, route), ob_score, "ieee", 120, dict(what=what, route=route), tiers,
                          twins=("accepted", "rejected", "edge")))
        obs.append(Ob("clip-times-" + route, ob_clip_times, "ieee", 120, dict(route=route), q,
                      twins=("accepted", "rejected", "edge")))
        obs.append(Ob("match-sides-" + route, ob_match_sides, "real", 120, dict(route=route), q,
                      twins=("accepted", "rejected")))
        obs.append(Ob("project-membership-" + route, ob_project, "real", 2400, dict(route=route), ("thorough",),
                      twins=("accepted", "rejected"), twin_timeout=300))
        obs.append(Ob("project-membership-2x2-" + route, ob_project, "real", 900,
                      dict(route=route, fixed_counts=[2, 2]), q if route == "ctor" else ("thorough",),
                      twins=("accepted", "rejected"), twin_timeout=300))
        for n_ann in range(3):
            for n_pred in range(3):
                for n_m in range(4):
                    if n_m > n_ann + n_pred:
                        continue
                    can_accept = n_m >= max(n_ann, n_pred)
                    tw = ("accepted", "rejected") if can_accept else ("rejected",)
                    if n_ann + n_pred == 0:
                        tw = ("accepted", "rejected")
                    quick = route == "ctor" and n_m <= 1
                    obs.append(Ob("clip-evaluation-a%dp%dm%d-%s" % (n_ann, n_pred, n_m, route), ob_clip_evaluation,
                                  "real", 6000 if n_m == 3 else 2400,
                                  dict(route=route, n_ann=n_ann, n_pred=n_pred, n_m=n_m),
                                  q if quick else ("thorough",), twins=tw, twin_timeout=900))
        # quick versions of the two-match patterns: sides from {none, own 0, own 1}, clips equal
        for (n_ann, n_pred) in ((1, 1), (2, 2), (2, 0)):
            obs.append(Ob("clip-evaluation-a%dp%dm2-own-%s" % (n_ann, n_pred, route), ob_clip_evaluation, "real", 900,
                          dict(route=route, n_ann=n_ann, n_pred=n_pred, n_m=2, dom=3, fix_clip=True),
                          q if route == "ctor" else ("thorough",), twins=("accepted", "rejected"), twin_timeout=600))
        # duplicates beyond the number of events
        obs.append(Ob("clip-evaluation-a1p0m2-dup-%s" % route, ob_clip_evaluation, "real", 900,
                      dict(route=route, n_ann=1, n_pred=0, n_m=2, dom=3, fix_clip=True),
                      q if route == "ctor" else ("thorough",), twins=("rejected",), twin_timeout=300))
    # AOEF loading as the fourth route: unvalidated object -> io.save -> io.load
    route = "aoef"
    for what in SCORES:
        obs.append(Ob("score-%s-aoef" % what, ob_score, "real", 600, dict(what=what, route=route),
                      q if what in ("predicted_tag.score", "match.affinity") else ("thorough",),
                      twins=("accepted", "rejected"), twin_timeout=300))
    obs.append(Ob("clip-times-aoef", ob_clip_times, "real", 600, dict(route=route), q, twins=("accepted", "rejected"),
                  twin_timeout=300))
    obs.append(Ob("project-membership-2x2-aoef", ob_project, "real", 1200, dict(route=route, fixed_counts=[2, 2]), q,
                  twins=("accepted", "rejected"), twin_timeout=300))
    for (n_ann, n_pred, n_m, quick) in ((1, 1, 1, True), (1, 0, 1, False), (0, 1, 1, False), (1, 1, 2, False)):
        obs.append(Ob("clip-evaluation-a%dp%dm%d-aoef" % (n_ann, n_pred, n_m), ob_clip_evaluation, "real", 2400,
                      dict(route=route, n_ann=n_ann, n_pred=n_pred, n_m=n_m, dom=3 if n_m == 2 else 4,
                           fix_clip=(n_m == 2)),
                      q if quick else ("thorough",), twins=("accepted", "rejected"), twin_timeout=600))
    return obs


INFO = dict(
    functions=[
        "soundevent.data.clip_evaluations.ClipEvaluation (_check_clips_match, _check_matches, score ge/le)",
        "soundevent.data.matches.Match (_validate_match, affinity/score ge/le)",
        "soundevent.data.annotation_projects.AnnotationProject._annotations_are_part_of_the_project",
        "soundevent.data.clips.Clip._validate_times",
        "soundevent.data.predicted_tags / sound_event_predictions / sequence_predictions (score ge/le)",
    ],
    bounds="scores / affinities / clip times: every double (IEEE-754) except NaN; clip evaluation: <= 2 annotations, "
    "<= 2 predictions, <= 2 matches (quick) / 3 (thorough), each match side chosen from {none, own 0, own 1, foreign}, "
    "annotation and prediction clips equal or different; project: <= 2 tasks and <= 2 clip annotations over 3 clips; "
    "routes: constructor, model_validate(dict), model_validate_json",
    trusted_base=[
        "models/pyd.py: the same validators/constraints run on every route (that is pydantic's contract; every "
        "accepting and rejecting witness is replayed through the real constructor / model_validate / "
        "model_validate_json)",
        "CrossHair 0.0.110 + z3",
    ],
    outside=["NaN scores (accepted by ge/le comparisons in pydantic? not decided)", "missing-key inputs to Clip "
             "(KeyError rather than a validation error)", "AOEF loading route: the invalid object is assembled with "
             "model_construct and written by io.save (documents that io.save cannot produce, e.g. hand-edited ones "
             "with dangling ids, are C02's subject); three-match arrangements through AOEF"],
)
