"""C15 — audio-derived arrays are sample-accurate and their axes tell the
truth.  Real code: audio/io.py load_audio, load_clip, load_recording;
audio/operations.py resample; audio/spectrograms.py compute_spectrogram;
arrays/dimensions.py create_time_range, create_range_dim,
create_time_dim_from_array, create_frequency_dim_from_array, get_dim_step."""

from __future__ import annotations

import importlib

from vf import h
from vf.plan import Ob

h.setup(
    fakes=("pydantic",),
    modules=("soundevent.data", "soundevent.arrays", "soundevent.audio"),
    real_first=("numpy", "xarray", "scipy.signal", "soundfile"),
)

from soundevent import data  # noqa: E402
from soundevent.arrays import dimensions as D  # noqa: E402

AIO = importlib.import_module("soundevent.audio.io")
AOP = importlib.import_module("soundevent.audio.operations")
ASP = importlib.import_module("soundevent.audio.spectrograms")

if h.MODEL:
    from models import npl, scp, sfl, xrl

    for _m in (D, AIO, AOP, ASP):
        _m.np = npl.numpy
        _m.xr = xrl.xarray
    AIO.sf = sfl.soundfile
    AOP.signal = scp.signal
    ASP.signal = scp.signal
    NP, XR = npl.numpy, xrl.xarray
else:
    import numpy as NP
    import xarray as XR

if h.MODEL:
    PATH = "/tmp/verif_c15_audio.wav"  # a key of the in-memory file table of models/sfl.py; nothing is written
else:
    # replay writes a real wav file: one per process (replays run in parallel), removed at exit
    import atexit
    import os
    import tempfile

    _fd, PATH = tempfile.mkstemp(prefix="verif_c15_", suffix=".wav")
    os.close(_fd)
    atexit.register(lambda: os.path.exists(PATH) and os.unlink(PATH))


def _close(a, b, tol=1e-9):
    if h.MODEL:
        return a == b
    return abs(float(a) - float(b)) <= tol * max(1.0, abs(float(b)))


def _lst(x):
    return x.tolist() if hasattr(x, "tolist") else list(x)


def _make_file(N, C, sr):
    """a file of N frames x C channels whose sample (i, c) is a distinct marker"""
    rows = [[(1 + i * 4 + c) / 64.0 for c in range(C)] for i in range(N)]
    if h.MODEL:
        sfl.FILES[PATH] = (rows, sr)
    else:
        import soundfile as sf

        sf.write(PATH, NP.array(rows, dtype=NP.float32), sr, subtype="FLOAT")
    return rows


def _recording(N, C, sr, te=1.0):
    # Recording.from_file convention: samplerate and duration already divided / multiplied by the expansion
    return data.Recording(uuid=h.U(1), path=PATH, duration=N / sr, channels=C, samplerate=sr, time_expansion=te)


def ob_load_clip(start: float, length: float) -> bool:
    """
    pre: 0 <= start <= 100 and 0 <= length <= 100
    post: _
    """
    sr, N, C = h.P("sr"), h.P("N"), h.P("C")
    K = h.P("K", 6)
    if not (start * sr <= N and length * sr < K + 1):
        return True  # clip starts inside (or at the end of) the file; at most K frames
    rows = _make_file(N, C, sr)
    rec = _recording(N, C, sr)
    clip = data.Clip(uuid=h.U(2), recording=rec, start_time=start, end_time=start + length)
    out = AIO.load_clip(clip)
    import math

    offset = math.floor(start * sr)
    k = math.floor(((start + length) - start) * sr)
    if tuple(out.dims) != ("time", "channel"):
        return h.fail("clip array is not laid out as (time, channel)")
    got = _lst(out.data)
    if len(got) != k:
        return h.fail("load_clip does not return floor(duration x samplerate) frames")
    for i in range(k):
        want = rows[offset + i] if offset + i < N else [0.0] * C
        for c in range(C):
            if not _close(got[i][c], want[c], 1e-6):
                return h.fail("frame i is not the file's frame offset+i (zero past the end of the file)")
    ts = _lst(out.coords["time"].data)
    if len(ts) != k:
        return h.fail("time axis length differs from the number of frames")
    for i, t in enumerate(ts):
        if not _close(t, (offset + i) / sr):
            return h.fail("frame i does not carry time (offset + i)/samplerate")
    full = AIO.load_recording(rec)
    fd = _lst(full.data)
    ft = _lst(full.coords["time"].data)
    if len(fd) != N or len(ft) != N:
        return h.fail("load_recording does not return every frame of the file with one time coordinate each")
    for i in range(k):
        if offset + i < N:
            for c in range(C):
                if not _close(got[i][c], fd[offset + i][c], 1e-6):
                    return h.fail("clip frame differs from the same frame of load_recording")
            if not _close(ts[i], ft[offset + i]):
                return h.fail("clip time differs from the same frame's time in load_recording")
    if not _axis_ok(ft, 0.0, full.coords["time"].attrs.get("step"), 1.0 / sr):
        return h.fail("load_recording time axis: not increasing / wrong start / disagrees with its step")
    if k and not _axis_ok(ts, offset / sr, out.coords["time"].attrs.get("step"), 1.0 / sr):
        return h.fail("load_clip time axis: not increasing / wrong start / disagrees with its step")
    past = offset + k > N
    return h.done(inside=(k > 0 and not past), past_eof=(k > 0 and past), empty=(k == 0))


def _axis_ok(xs, first, step_attr, true_step=None):
    """strictly increasing, starts at `first`, every coordinate within one advertised step of first + i*step"""
    if step_attr is None:
        return False
    if true_step is not None and not _close(step_attr, true_step):
        return False
    for a, b in zip(xs, xs[1:]):
        if not a < b:
            return False
    if xs and not _close(xs[0], first):
        return False
    for i, x in enumerate(xs):
        d = x - (xs[0] + i * step_attr)
        if d < 0:
            d = -d
        if not d < step_attr:
            return False
    return True


def _audio(n, sr, t0, C=1):
    ts = [t0 + i / sr for i in range(n)]
    coord = XR.Variable("time", NP.array(ts), {"step": 1.0 / sr, "units": "s"})
    dat = [[(1 + i * 4 + c) / 64.0 for c in range(C)] for i in range(n)]
    return XR.DataArray(NP.array(dat), dims=("time", "channel"), coords={"time": coord, "channel": list(range(C))}), ts


def ob_spectrogram(window: float, hop: float, t0: float) -> bool:
    """
    pre: 0 < hop <= window <= 10 and 0 <= t0 <= 100
    post: _
    """
    sr, n = h.P("sr"), h.P("n")
    F = h.P("F", 6)
    if not (window * sr >= 1 and window * sr < 5 and hop * sr >= 1):
        return True  # windows of 1..4 samples, hops of at least one sample (fractional numbers of samples allowed)
    audio, ts = _audio(n, sr, t0)
    try:
        spec = ASP.compute_spectrogram(audio, window_size=window, hop_size=hop)
    except ValueError:
        return True  # scipy rejects the window/overlap combination (e.g. zero hop after truncation)
    if tuple(spec.dims) != ("frequency", "time", "channel"):
        return h.fail("spectrogram is not laid out as (frequency, time, channel)")
    tt = _lst(spec.coords["time"].data)
    ff = _lst(spec.coords["frequency"].data)
    if len(tt) > F:
        return True  # at most F frames (bound)
    if not _axis_ok(tt, t0, spec.coords["time"].attrs.get("step")):
        return h.fail("spectrogram time axis: not increasing / wrong start / a coordinate is more than one advertised "
                      "step away from first + i*step")
    if not _axis_ok(ff, 0.0, spec.coords["frequency"].attrs.get("step")):
        return h.fail("spectrogram frequency axis disagrees with its advertised step")
    whole = (hop * sr == int(hop * sr))
    return h.done(whole_hop=whole, fractional_hop=not whole)


def ob_resample(t0: float, ratio: float) -> bool:
    """
    pre: 0 <= t0 <= 100 and 0.2 <= ratio <= 4
    post: _
    """
    sr, n = h.P("sr"), h.P("n")
    target = ratio * sr
    if not (n * ratio >= 1 and n * ratio < 9):
        return True  # 1..8 output samples
    audio, ts = _audio(n, sr, t0)
    out = AOP.resample(audio, target_samplerate=target)
    tt = _lst(out.coords["time"].data)
    import math

    if len(tt) != math.floor(n * ratio):
        return h.fail("resampled length is not int(n x ratio)")
    if tuple(out.dims) != ("time", "channel"):
        return h.fail("resampled array lost its layout")
    if not _axis_ok(tt, t0, out.coords["time"].attrs.get("step"), 1.0 / target):
        return h.fail("resampled time axis: not increasing / wrong start / a coordinate is more than one advertised "
                      "step away from first + i*step")
    return h.done(up=(ratio > 1), down=(ratio < 1))


def plan():
    q = ("quick", "thorough")
    obs = []
    # sample rates: dyadic ones and 1000/8000 (for which the identities happen to hold in doubles).  Rates such as 3 or 44100 are NOT used: 1/sr and i/sr enter the
    # exact-real reasoning as rounded double constants, so lattice identities like 3*(1/sr) == 3/sr fail in the model
    # although they hold (up to rounding) in the real run — a harness artefact, not a property of the code
    for (sr, N, C) in ((4, 5, 1), (8000, 6, 2), (16, 4, 2), (256, 3, 1), (32768, 8, 1)):
        quick = (sr, N) in ((4, 5), (8000, 6))
        obs.append(Ob("load-clip-sr%d-N%d-C%d" % (sr, N, C), ob_load_clip, "real", 2400, dict(sr=sr, N=N, C=C, K=6),
                      q if quick else ("thorough",), twins=("inside", "past_eof", "empty"), twin_timeout=300))
    for (sr, n) in ((4, 6), (1000, 8), (16, 5), (32768, 8)):
        quick = (sr, n) in ((4, 6), (1000, 8))
        obs.append(Ob("spectrogram-sr%d-n%d" % (sr, n), ob_spectrogram, "real", 2400, dict(sr=sr, n=n, F=6),
                      q if quick else ("thorough",), twins=("whole_hop", "fractional_hop"), twin_timeout=300))
        obs.append(Ob("resample-sr%d-n%d" % (sr, min(n, 4)), ob_resample, "real", 1800, dict(sr=sr, n=min(n, 4)),
                      q if quick else ("thorough",), twins=("up", "down"), twin_timeout=300))
    return obs


INFO = dict(
    functions=[
        "soundevent.audio.io: load_audio, load_clip, load_recording",
        "soundevent.audio.operations.resample, soundevent.audio.spectrograms.compute_spectrogram",
        "soundevent.arrays.dimensions: create_time_range, create_range_dim, create_time_dim_from_array, "
        "create_frequency_dim_from_array, get_dim_step",
    ],
    bounds="samplerates {4, 16, 256, 32768, 1000, 8000}, files of 3..8 frames x 1-2 channels, clips starting inside "
    "the file with <= 6 frames (start/length symbolic reals, on and off sample boundaries, reaching past the end); "
    "spectrogram windows of 1..4 samples and hops >= 1 sample with fractional numbers of samples, <= 6 frames; "
    "resampling ratios in [0.2, 4] with 1..8 output samples; exact real arithmetic; time expansion folded into the "
    "samplerate as Recording.from_file does",
    trusted_base=[
        "models/sfl.py (libsndfile seek/read with zero fill), models/scp.py stft/resample: time and frequency vectors "
        "and output shapes by scipy's documented contract, spectrum/resampled VALUES not modelled",
        "models/npl.py (arange contract), models/xrl.py, models/pyd.py; CrossHair 0.0.110 + z3 with floor/int symbolic",
    ],
    outside=["sample values decoded by libsndfile (replay compares float32 markers)", "FFT / window values",
             "IEEE rounding of start*samplerate and of np.arange inside the time axes (exact arithmetic only)",
             "clips that start beyond the end of the file (libsndfile refuses the seek)"],
)
