"""C12 — overlap predicates agree with exact interval arithmetic.
Real code: soundevent/geometry/operations.py intervals_overlap,
have_temporal_overlap, have_frequency_overlap, is_in_clip (+ compute_bounds,
geometry_to_shapely and the geometry validators they run through)."""

from __future__ import annotations

from vf import h
from vf.plan import Ob

h.setup(
    fakes=("pydantic", "shp"),
    modules=("soundevent.data", "soundevent.geometry.operations"),
    real_first=("numpy", "xarray", "rasterio.features", "scipy.sparse.csgraph", "matplotlib.pyplot"),
)

from soundevent import data  # noqa: E402
from soundevent.geometry import operations as ops  # noqa: E402

from props import geo  # noqa: E402
from vf import sym  # noqa: E402


def _call(i1, i2, a, r):
    """(value, raised)"""
    try:
        return bool(ops.intervals_overlap(i1, i2, min_absolute_overlap=a, min_relative_overlap=r)), False
    except ValueError:
        return None, True


def ob_default(a0: float, a1: float, b0: float, b1: float) -> bool:
    """
    pre: a0 <= a1 and b0 <= b1
    pre: -1e308 <= a0 and a1 <= 1e308 and -1e308 <= b0 and b1 <= 1e308
    post: _
    """
    # default threshold: true exactly when the intersection is non-empty
    # (exact: min(stops) >= max(starts); no arithmetic needed)
    v, err = _call((a0, a1), (b0, b1), None, None)
    if err:
        return h.fail("default threshold raised")
    w, err = _call((b0, b1), (a0, a1), None, None)
    if err or v != w:
        return h.fail("not symmetric")
    stop = a1 if a1 <= b1 else b1
    start = a0 if a0 >= b0 else b0
    if v != (stop >= start):
        return h.fail("default threshold: value differs from non-empty intersection")
    z, err = _call((a0, a1), (b0, b1), 0.0, None)
    if err or z != v:
        return h.fail("absolute threshold 0 differs from default")
    return h.done(overlap=v, disjoint=not v, touching=(stop == start))


def ob_absolute(a0: float, a1: float, b0: float, b1: float, thr: float, thr2: float) -> bool:
    """
    pre: a0 <= a1 and b0 <= b1
    pre: -1e300 <= a0 and a1 <= 1e300 and -1e300 <= b0 and b1 <= 1e300
    pre: -1e300 <= thr <= 1e300 and -1e300 <= thr2 <= 1e300
    post: _
    """
    v, err = _call((a0, a1), (b0, b1), thr, None)
    if err:
        return h.fail("absolute threshold raised")
    w, err = _call((b0, b1), (a0, a1), thr, None)
    if err or v != w:
        return h.fail("not symmetric")
    stop = a1 if a1 <= b1 else b1
    start = a0 if a0 >= b0 else b0
    if v != (stop - start >= thr):
        return h.fail("absolute threshold: value differs from |intersection| >= threshold")
    # monotone: a larger threshold never turns False into True
    v2, err = _call((a0, a1), (b0, b1), thr2, None)
    if err:
        return h.fail("absolute threshold raised")
    if thr2 >= thr and v2 and not v:
        return h.fail("not monotone in the absolute threshold")
    return h.done(true=v, false=not v, exact=(stop - start == thr))


def ob_relative(a0: float, a1: float, b0: float, b1: float, rel: float, rel2: float) -> bool:
    """
    pre: a0 <= a1 and b0 <= b1
    pre: -1e6 <= a0 and a1 <= 1e6 and -1e6 <= b0 and b1 <= 1e6
    pre: -2 <= rel <= 3 and 0 <= rel2 <= 1
    post: _
    """
    v, err = _call((a0, a1), (b0, b1), None, rel)
    if rel < 0 or rel > 1:
        if not err:
            return h.fail("relative threshold outside [0,1] accepted")
        return h.done(true=False, false=False, rejected=True)
    if err:
        return h.fail("relative threshold in [0,1] rejected")
    w, err = _call((b0, b1), (a0, a1), None, rel)
    if err or v != w:
        return h.fail("not symmetric")
    stop = a1 if a1 <= b1 else b1
    start = a0 if a0 >= b0 else b0
    wa = a1 - a0
    wb = b1 - b0
    shorter = wa if wa <= wb else wb
    if v != (stop - start >= rel * shorter):
        return h.fail("relative threshold: value differs from |intersection| >= rel * shorter")
    v2, err = _call((a0, a1), (b0, b1), None, rel2)
    if err:
        return h.fail("relative threshold in [0,1] rejected")
    if rel2 >= rel and v2 and not v:
        return h.fail("not monotone in the relative threshold")
    return h.done(true=v, false=not v, rejected=False)


def ob_both(a0: float, a1: float, b0: float, b1: float, thr: float, rel: float) -> bool:
    """
    pre: a0 <= a1 and b0 <= b1 and thr == thr and rel == rel
    post: _
    """
    v, err = _call((a0, a1), (b0, b1), thr, rel)
    if not err:
        return h.fail("both thresholds accepted")
    return h.done(rejected=True)


def _geom(tag, variant, v):
    if not geo.all_finite(geo.used(tag, variant, v)):
        return None
    if tag == "Polygon" and variant == 1 and not geo.hole_inside(v):
        return None
    return geo.make(data, tag, variant, v)


class _Recorder:
    """Stands in for intervals_overlap while the *delegation* of the geometry
    predicates is checked: records the forwarded arguments, returns a value
    chosen by the solver.  (intervals_overlap itself is decided above.)"""

    def __init__(self, answer):
        self.calls = []
        self.answer = answer

    def __call__(self, i1, i2, min_absolute_overlap=None, min_relative_overlap=None):
        self.calls.append((i1, i2, min_absolute_overlap, min_relative_overlap))
        return self.answer


def ob_geom_overlap(
    p0: float, p1: float, p2: float, p3: float, p4: float, p5: float,
    q0: float, q1: float, q2: float, q3: float, q4: float, q5: float,
    thr: float, which: int, answer: bool,
) -> bool:
    """
    pre: thr == thr
    pre: 0 <= which <= 2
    post: _
    """
    # have_temporal_overlap / have_frequency_overlap == intervals_overlap on
    # the extents computed independently from the coordinates, thresholds
    # forwarded unchanged
    t1, v1, t2, v2 = h.P("t1"), h.P("v1"), h.P("t2"), h.P("v2")
    P = [p0, p1, p2, p3, p4, p5]
    Q = [q0, q1, q2, q3, q4, q5]
    g1 = _geom(t1, v1, P)
    g2 = _geom(t2, v2, Q)
    if g1 is None or g2 is None:
        return True
    e1 = geo.extent(t1, v1, P)
    e2 = geo.extent(t2, v2, Q)
    a = thr if which == 1 else None
    r = thr if which == 2 else None
    rec = _Recorder(answer)
    saved = ops.intervals_overlap
    ops.intervals_overlap = rec
    try:
        got_t = ops.have_temporal_overlap(g1, g2, min_absolute_overlap=a, min_relative_overlap=r)
        got_f = ops.have_frequency_overlap(g1, g2, min_absolute_overlap=a, min_relative_overlap=r)
    finally:
        ops.intervals_overlap = saved
    if len(rec.calls) != 2:
        return h.fail("geometry predicate does not delegate exactly once")
    if got_t != answer or got_f != answer:
        return h.fail("geometry predicate does not return the interval predicate's value")
    (i1, i2, ca, cr) = rec.calls[0]
    if not (i1[0] == e1[0] and i1[1] == e1[2] and i2[0] == e2[0] and i2[1] == e2[2] and len(i1) == 2 and len(i2) == 2):
        return h.fail("have_temporal_overlap differs from the predicate on the time extents")
    if not _same_opt(ca, a) or not _same_opt(cr, r):
        return h.fail("have_temporal_overlap does not forward the thresholds")
    (i1, i2, ca, cr) = rec.calls[1]
    if not (i1[0] == e1[1] and i1[1] == e1[3] and i2[0] == e2[1] and i2[1] == e2[3] and len(i1) == 2 and len(i2) == 2):
        return h.fail("have_frequency_overlap differs from the predicate on the frequency extents")
    if not _same_opt(ca, a) or not _same_opt(cr, r):
        return h.fail("have_frequency_overlap does not forward the thresholds")
    st = sym.fmin(e1[2], e2[2])
    sa = sym.fmax(e1[0], e2[0])
    return h.done(overlap=(st >= sa), disjoint=sym.bnot(st >= sa))


def _same_opt(a, b):
    if a is None or b is None:
        return a is None and b is None
    return a == b


def _clip(s, e):
    rec = data.Recording(uuid=h.U(1), path="a.wav", duration=10.0, channels=1, samplerate=8000)
    return data.Clip(uuid=h.U(2), recording=rec, start_time=s, end_time=e)


def ob_in_clip(
    p0: float, p1: float, p2: float, p3: float, p4: float, p5: float,
    cs: float, ce: float, m: float,
) -> bool:
    """
    pre: 0 <= cs <= ce <= 1e300
    pre: -1e300 <= m <= 1e300
    post: _
    """
    tag, variant = h.P("t1"), h.P("v1")
    P = [p0, p1, p2, p3, p4, p5]
    g = _geom(tag, variant, P)
    if g is None:
        return True
    clip = _clip(cs, ce)
    try:
        got = ops.is_in_clip(g, clip, minimum_overlap=m)
    except ValueError:
        if m < 0:
            return h.done(inside=False, outside=False, rejected=True, edge=False)
        return h.fail("non-negative minimum overlap rejected")
    if m < 0:
        return h.fail("negative minimum overlap accepted")
    e = geo.extent(tag, variant, P)
    exp = (e[2] > cs + m) and (e[0] < ce - m)
    if bool(got) != exp:
        return h.fail("is_in_clip differs from end > clip.start + m and start < clip.end - m")
    return h.done(inside=exp, outside=not exp, rejected=False, edge=(e[2] == cs + m or e[0] == ce - m))


GEOMS_Q = [("TimeStamp", 0), ("TimeInterval", 0), ("BoundingBox", 0), ("Point", 0), ("LineString", 0)]
GEOMS_T = GEOMS_Q + [("LineString", 1), ("Polygon", 0), ("MultiPoint", 1), ("MultiLineString", 0), ("MultiPolygon", 0)]


def plan():
    q = ("quick", "thorough")
    obs = [
        Ob("intervals-default", ob_default, "ieee", 120, {}, q, twins=("overlap", "disjoint", "touching")),
        Ob("intervals-absolute", ob_absolute, "ieee", 240, {}, q, twins=("true", "false", "exact")),
        Ob("intervals-relative-exact", ob_relative, "real", 600, {}, q, twins=("true", "false", "rejected")),
        Ob("intervals-both-rejected", ob_both, "ieee", 60, {}, q, twins=("rejected",)),
    ]
    for (t1, v1) in GEOMS_T:
        tiers = q if (t1, v1) in GEOMS_Q else ("thorough",)
        obs.append(Ob("in-clip-%s%d" % (t1, v1), ob_in_clip, "ieee", 300, dict(t1=t1, v1=v1), tiers,
                      twins=("inside", "outside", "rejected", "edge")))
    pairs_q = [(("TimeStamp", 0), ("BoundingBox", 0)), (("TimeInterval", 0), ("TimeInterval", 0)),
               (("BoundingBox", 0), ("BoundingBox", 0)), (("Point", 0), ("LineString", 0)),
               (("BoundingBox", 0), ("TimeInterval", 0))]
    pairs_t = list(pairs_q)
    for a in GEOMS_T:
        for b in GEOMS_T:
            if (a, b) not in pairs_t and SIZE(a) + SIZE(b) <= 10:
                pairs_t.append((a, b))
    for (a, b) in pairs_t:
        tiers = q if (a, b) in pairs_q else ("thorough",)
        tw = ("overlap", "disjoint")
        obs.append(Ob("geom-overlap-%s%d-%s%d" % (a[0], a[1], b[0], b[1]), ob_geom_overlap, "ieee", 400,
                      dict(t1=a[0], v1=a[1], t2=b[0], v2=b[1]), tiers, twins=tw))
    return obs


def SIZE(tv):
    return geo.SHAPES[tv]


INFO = dict(
    functions=[
        "soundevent.geometry.operations: intervals_overlap, have_temporal_overlap, have_frequency_overlap, "
        "is_in_clip, compute_bounds",
        "soundevent.geometry.conversion: geometry_to_shapely and the nine *_to_shapely",
        "soundevent.data.geometries validators, soundevent.data.clips.Clip._validate_times",
    ],
    bounds="interval endpoints / thresholds: every finite double in [-1e300, 1e300] (IEEE-754 binary64, RNE) for the "
    "default and absolute thresholds and the geometry predicates; relative threshold: exact real arithmetic, "
    "endpoints in [-1e6, 1e6]; geometries: TimeStamp, TimeInterval, BoundingBox, Point, LineString(2-3 pts), "
    "Polygon(3 pts), MultiPoint(2), MultiLineString(1x2), MultiPolygon(1x3), sized <= 6 floats each",
    trusted_base=[
        "models/pyd.py (pydantic construction)",
        "models/shp.py (.bounds = min/max over coordinates; box corners)",
        "CrossHair 0.0.110 + z3 (Float64 / Real)",
    ],
    outside=[
        "IEEE rounding of rel*min_width in the relative threshold (decided in exact arithmetic only)",
        "the clause 'length of the intersection' is compared with the code's own single rounded subtraction for "
        "non-zero absolute thresholds (exact for the default threshold: comparison only)",
        "NaN / infinite endpoints; geometries with more than 3 points per part",
    ],
)
