"""C16 — range dimensions and coordinate lookup are exact.
Real code: arrays/dimensions.py create_range_dim, create_time_range,
create_frequency_range, get_dim_range, get_coord_index; arrays/operations.py
set_value_at_pos."""

from __future__ import annotations

from fractions import Fraction

from vf import h
from vf.plan import Ob

h.setup(
    fakes=("pydantic",),
    modules=("soundevent.arrays",),
    real_first=("numpy", "xarray"),
)

from soundevent.arrays import dimensions as D  # noqa: E402
from soundevent.arrays import operations as O  # noqa: E402

if h.MODEL:
    from models import npl, xrl

    for _m in (D, O):
        _m.np = npl.numpy
        _m.xr = xrl.xarray
    NP, XR = npl.numpy, xrl.xarray
else:
    import numpy as NP
    import xarray as XR


def close(a, b, scale=1.0):
    """equality of a coordinate with its specification: exact in the model
    (exact reals); up to rounding noise when replayed in doubles"""
    if h.MODEL:
        return a == b
    return abs(float(a) - float(b)) <= 1e-9 * max(1.0, abs(float(scale)), abs(float(b)))


def whole(start, stop, step, n):
    """(stop - start)/step is the whole number n — decided in exact rationals"""
    if h.MODEL:
        return stop - start == n * step
    return Fraction(stop) - Fraction(start) == n * Fraction(step)


def _labels(var):
    d = var.data
    return d.tolist() if hasattr(d, "tolist") else list(d)


def ob_range_whole(start: float, step: float, frac: float) -> bool:
    """
    pre: -1000 <= start <= 1000 and 0.0001 <= step <= 1000
    pre: 0 <= frac < 1
    post: _
    """
    # stop = start + N*step (+ a fraction of a step for the non-whole case)
    N = h.P("N")
    which = h.P("which")
    exact = h.P("exact")
    if h.TWIN:
        # reachability witnesses must survive the replay in doubles: dyadic start / step
        import math

        if not (start == math.floor(start) and step * 4 == math.floor(step * 4) and frac * 4 == math.floor(frac * 4)):
            return True
        if which == "time-samplerate" and not (step == 0.25 or step == 0.5 or step == 1):
            return True
    stop = start + N * step + (0 if exact else frac * step)
    if which == "range":
        v = D.create_range_dim("x", start, stop, step=step)
    elif which == "size":
        if not exact:
            return True
        v = D.create_range_dim("x", start, stop, size=N)
    elif which == "time-step":
        v = D.create_time_range(start, stop, step=step)
    elif which == "time-samplerate":
        if not step <= 1:
            return True
        sr = 1 / step
        v = D.create_time_range(start, stop, samplerate=sr)
        step = 1.0 / sr
        stop = start + N * step + (0 if exact else frac * step)
        v = D.create_time_range(start, stop, samplerate=sr)
    elif which == "frequency":
        v = D.create_frequency_range(start, stop, step)
    else:
        raise KeyError(which)
    xs = _labels(v)
    got_step = v.attrs.get("step")
    if got_step is None or not close(got_step, step, step):
        return h.fail("step attribute does not record the step")
    for i, x in enumerate(xs):
        if not close(x, start + i * step, stop):
            return h.fail("coordinate is not start + i*step")
        if not (x >= start - (0 if h.MODEL else 1e-9) and x < stop):
            return h.fail("coordinate outside [start, stop)")
    is_whole = whole(start, stop, step, N)
    if is_whole and len(xs) != N:
        return h.fail("(stop - start)/step is the whole number N but there are not N coordinates")
    if which.startswith("time") and v.attrs.get("units") != "s":
        return h.fail("time attributes missing")
    if which == "frequency" and v.attrs.get("units") != "Hz":
        return h.fail("frequency attributes missing")
    return h.done(whole=is_whole, fractional=not is_whole)


def _axis(c0, d1, d2, d3, n):
    xs = [c0, c0 + d1, c0 + d1 + d2, c0 + d1 + d2 + d3][:n]
    return xs


def ob_coord_index(c0: float, d1: float, d2: float, d3: float, v: float, raise_error: bool) -> bool:
    """
    pre: c0 == c0 and v == v and d1 > 0 and d2 > 0 and d3 > 0
    pre: -1e300 < c0 < 1e300 and d1 < 1e300 and d2 < 1e300 and d3 < 1e300
    post: _
    """
    n = h.P("n")
    xs = _axis(c0, d1, d2, d3, n)
    for a, b in zip(xs, xs[1:]):
        if not a < b:
            return True  # strictly increasing, finite axis
    if not (xs[-1] < float("inf")):
        return True
    arr = XR.DataArray(NP.zeros(n), dims=("time",), coords={"time": NP.array(xs)})
    lo, hi = D.get_dim_range(arr, "time")
    if not (lo == xs[0] and hi == xs[-1]):
        return h.fail("get_dim_range is not (first, last) of a sorted axis")
    try:
        i = D.get_coord_index(arr, "time", v, raise_error=raise_error)
    except KeyError:
        if xs[0] <= v <= xs[-1]:
            return h.fail("in-range value raised")
        if not raise_error:
            return h.fail("raised although clamping was requested")
        return h.done(inside=False, edge=False, outside=True)
    if v < xs[0]:
        if raise_error or i != 0:
            return h.fail("value below the range neither raised nor clamped to 0")
        return h.done(inside=False, edge=False, outside=True)
    if v > xs[-1]:
        if raise_error or i != n:
            return h.fail("value above the range neither raised nor clamped to the size")
        return h.done(inside=False, edge=False, outside=True)
    if not (0 <= i < n):
        return h.fail("index out of bounds for an in-range value")
    if not (xs[i] <= v):
        return h.fail("coord[i] > v")
    if i + 1 < n and not (v < xs[i + 1]):
        return h.fail("v >= coord[i+1]")
    if v == xs[-1] and i != n - 1:
        return h.fail("upper edge does not give the last index")
    return h.done(inside=(i + 1 < n), edge=(v == xs[-1]), outside=False)


def ob_set_value(c0: float, d1: float, d2: float, f0: float, e1: float, e2: float, qt: float, qf: float,
                 val: float, mode: int) -> bool:
    """
    pre: d1 > 0 and d2 > 0 and e1 > 0 and e2 > 0
    pre: -1000 <= c0 <= 1000 and d1 <= 1000 and d2 <= 1000 and -1000 <= f0 <= 1000 and e1 <= 1000 and e2 <= 1000
    pre: -5000 <= qt <= 5000 and -5000 <= qf <= 5000 and -10 <= val <= 10
    pre: 0 <= mode <= 2
    post: _
    """
    nt, nf = h.P("nt"), h.P("nf")
    order = h.P("order")  # "tf" or "ft"
    ts = [c0, c0 + d1, c0 + d1 + d2][:nt]
    fs = [f0, f0 + e1, f0 + e1 + e2][:nf]
    shape = (nt, nf) if order == "tf" else (nf, nt)
    dims = ("time", "frequency") if order == "tf" else ("frequency", "time")
    base = [[(1 + a * 4 + b) * 0.125 for b in range(shape[1])] for a in range(shape[0])]
    arr = XR.DataArray(NP.array(base), dims=dims, coords={"time": NP.array(ts), "frequency": NP.array(fs)})
    query = {}
    if mode in (0, 1):
        query["time"] = qt
    if mode in (0, 2):
        query["frequency"] = qf
    t_in = ts[0] <= qt <= ts[-1]
    f_in = fs[0] <= qf <= fs[-1]
    must_raise = ("time" in query and not t_in) or ("frequency" in query and not f_in)
    try:
        out = O.set_value_at_pos(arr, val, **query)
    except KeyError:
        if not must_raise:
            return h.fail("in-range position raised")
        return h.done(cell=False, line=False, rejected=True)
    if must_raise:
        return h.fail("out-of-range position accepted")

    def idx(xs, q):
        k = 0
        for j, x in enumerate(xs):
            if x <= q:
                k = j
        return k

    it = idx(ts, qt) if "time" in query else None
    jf = idx(fs, qf) if "frequency" in query else None
    data = out.data.tolist() if hasattr(out.data, "tolist") else out.data
    for a in range(shape[0]):
        for b in range(shape[1]):
            ti, fi = (a, b) if order == "tf" else (b, a)
            hit = (it is None or ti == it) and (jf is None or fi == jf)
            want = val if hit else base[a][b]
            if not close(data[a][b], want):
                return h.fail("a cell other than the addressed one changed / the addressed one did not")
    return h.done(cell=(mode == 0), line=(mode != 0), rejected=False)


def ob_coord_on_range(start: float, step: float) -> bool:
    """
    pre: -1000 <= start <= 1000 and 0.0001 <= step <= 1000
    post: _
    """
    # replay target of the IEEE search: on an axis built by create_range_dim, looking up a coordinate value
    # returns that coordinate's own index, and set_value_at_pos writes that cell
    N = h.P("N")
    stop = start + N * step
    v = D.create_range_dim("time", start, stop, step=step)
    xs = _labels(v)
    arr = XR.DataArray(NP.zeros(len(xs)), dims=("time",), coords={"time": v})
    for i, x in enumerate(xs):
        got = D.get_coord_index(arr, "time", x)
        if got != i:
            return h.fail("looking up a coordinate value does not return that coordinate's index")
    return h.done(any=True)


def kx_coord_index(params, timeout):
    """IEEE-754 search: the real create_range_dim + get_coord_index are executed over z3 Float64 terms (path
    by path, infeasible branches pruned by z3); for the i-th coordinate of an N-step axis z3 is asked for
    doubles (start, step) for which the lookup of that coordinate value returns another index."""
    import types

    import z3

    from models import npl, xrl
    from vf import kx

    N, i = params["N"], params["i"]
    start, step = kx.var("start", 0.5), kx.var("step", 0.25)
    base = [kx.finite_between(start, -1000.0, 1000.0), kx.finite_between(step, 0.0001, 1000.0)]
    import math

    def arange(start=None, stop=None, step=1, dtype=None):
        a, b, s_ = start, stop, step
        if all(isinstance(x, int) and not isinstance(x, bool) for x in (a, b, s_)):
            r = list(range(a, b, s_))
            return npl.ndarray(r, (len(r),), None)
        k = max(0, math.ceil((kx.shadow(b) - kx.shadow(a)) / kx.shadow(s_)))
        delta = (a + s_) - a  # numpy: element j = start + j*delta
        return npl.ndarray([a + j * delta for j in range(k)], (k,), None)

    def kx_int(x=0, *a):
        if isinstance(x, kx.ZF):
            return x.__int__()
        if isinstance(x, kx.ZI):
            return x
        return int(x, *a)

    fake_np = types.SimpleNamespace(arange=arange, float64=npl.float64, ndarray=npl.ndarray, zeros=npl.zeros,
                                    floor=lambda x: kx_int(x) if isinstance(x, kx.ZF) else math.floor(x))

    def run():
        v = D.create_range_dim("time", start, start + N * step, step=step)
        labels = v.data.tolist()
        arr = xrl.DataArray(npl.zeros(len(labels)), dims=("time",), coords={"time": v})
        if i >= len(labels):
            return ("short", len(labels))
        return ("idx", D.get_coord_index(arr, "time", labels[i]))

    import time

    saved = (D.np, D.xr, D.__dict__.get("int"))
    D.np, D.xr = fake_np, xrl.xarray
    D.int = kx_int
    queries, npaths, useful, spent = 0, 0, 0, 0.0
    unknown = False
    found = None
    t0 = time.time()
    try:
        # queries are posed as the paths arrive (the sample's own path first); the whole search — exploration,
        # pruning and solving — stops at the obligation's budget
        for pc, res in kx.explore_iter(run, max_paths=200, base=base, prune_timeout_ms=3000, deadline=t0 + timeout):
            npaths += 1
            if isinstance(res, (KeyError, IndexError, ValueError)):
                bad = z3.BoolVal(True)  # an in-range coordinate raised
            elif isinstance(res, Exception):
                unknown = True  # unexplorable branch or a gap in the models: no verdict from this path
                continue
            elif res[0] == "short":
                continue
            else:
                useful += 1
                idx = res[1]
                if isinstance(idx, kx.ZI):
                    bad = idx.e != i
                else:
                    bad = z3.BoolVal(int(idx) != i)
            if z3.is_false(z3.simplify(bad)):
                continue
            left = timeout - (time.time() - t0)
            if left < 5:
                unknown = True
                break
            r = kx.solve(base + pc + [bad], max(5.0, left / 4), {"start": start, "step": step})
            queries += 1
            spent += r["solve_s"]
            if r["status"] == "sat":
                found = r["model"]
                break
            if r["status"] != "unsat":
                unknown = True
    finally:
        D.np, D.xr = saved[0], saved[1]
        if saved[2] is None:
            del D.int
        else:
            D.int = saved[2]
    if found is not None:
        m = found
        return {"status": "refuted", "backend": kx.LAST["backend"], "replay_fn": "ob_coord_on_range", "args": [[m["start"], m["step"]], {}],
                "queries": queries, "paths": npaths, "solve_s": round(spent, 1),
                "message": "solver model: lookup of coordinate %d of an %d-step axis returns another index for "
                "start=%r step=%r" % (i, N, m["start"], m["step"]),
                "clause": "looking up a coordinate value does not return that coordinate's index"}
    out = {"queries": queries, "paths": npaths, "solve_s": round(spent, 1), "unexplored": kx.EXHAUSTED["left"]}
    if not useful:
        out.update(status="error", message="vacuous: no explored path performed the lookup")
    elif unknown or kx.EXHAUSTED["left"]:
        out.update(status="searched", message="no IEEE counterexample found within the budget (solver unknown on "
                   "some path, or paths left unexplored)")
    else:
        out.update(status="confirmed")
    return out


def ob_range_count(start: float, step: float) -> bool:
    """
    pre: 0 <= start <= 1000000 and 0.000001 <= step <= 1000
    post: _
    """
    # replay target of the IEEE search: when (stop - start)/step is EXACTLY the whole number N (decided in
    # rationals over the doubles), the range has exactly N coordinates
    N = h.P("N")
    stop = start + N * step
    if not whole(start, stop, step, N):
        return True
    v = D.create_range_dim("x", start, stop, step=step)
    if len(_labels(v)) != N:
        return h.fail("(stop - start)/step is the whole number N but there are not N coordinates")
    return h.done(any=True)


def kx_range_count(params, timeout):
    """IEEE-754 search: the real create_range_dim is run over z3 Float64 terms; np.arange is replaced by its
    contract in doubles (length ceil((stop-start)/step) computed in floating point — N or N+1 elements are
    explored —, element i = start + i*((start+step)-start)); z3 is asked for doubles start, step with
    stop = start + N*step EXACT (no rounding in the product and the sum) for which the function does not
    return N coordinates."""
    import types

    import z3

    from models import npl, xrl
    from vf import kx

    N = params["N"]
    start, step = kx.var("start", 0.5), kx.var("step", 0.25)
    nstep = step * float(N)
    stop = start + nstep
    base = [kx.finite_between(start, 0.0, 1000000.0), kx.finite_between(step, 0.000001, 1000.0),
            kx.exact_mul(step, float(N)), kx.exact_add(start, nstep)]

    def arange(start=None, stop=None, step=1, dtype=None):
        a, b, s_ = start, stop, step
        length = kx.arange_len(a, b, s_)
        delta = (a + s_) - a
        for k in (N, N + 1, N - 1):
            if k >= 0 and kx.ZB(z3.fpEQ(length, z3.FPVal(float(k), kx.F64))):
                return npl.ndarray([a + j * delta for j in range(k)], (k,), None)
        raise kx.SymbolicBranch("range length outside N-1..N+1")

    fake_np = types.SimpleNamespace(arange=arange, float64=npl.float64, ndarray=npl.ndarray)

    def run():
        v = D.create_range_dim("x", start, stop, step=step)
        return len(v.data.tolist())

    import time

    saved = (D.np, D.xr)
    D.np, D.xr = fake_np, xrl.xarray
    queries, spent, unknown, npaths, useful = 0, 0.0, False, 0, 0
    found = None
    t0 = time.time()
    try:
        for pc, res in kx.explore_iter(run, max_paths=24, base=base, prune_timeout_ms=3000, deadline=t0 + timeout):
            npaths += 1
            if isinstance(res, Exception):
                continue
            useful += 1
            if res == N:
                continue
            left = timeout - (time.time() - t0)
            if left < 5:
                unknown = True
                break
            r = kx.solve(base + pc, max(10.0, left / 2), {"start": start, "step": step})
            queries += 1
            spent += r["solve_s"]
            if r["status"] == "sat":
                found = (r["model"], res)
                break
            if r["status"] != "unsat":
                unknown = True
    finally:
        D.np, D.xr = saved
    if found is not None:
        m, res = found
        return {"status": "refuted", "backend": kx.LAST["backend"], "replay_fn": "ob_range_count", "args": [[m["start"], m["step"]], {}],
                "queries": queries, "paths": npaths, "solve_s": round(spent, 1),
                "message": "solver model: %d exact steps but %d coordinates for start=%r step=%r" % (N, res, m["start"], m["step"]),
                "clause": "(stop - start)/step is the whole number N but there are not N coordinates"}
    out = {"queries": queries, "paths": npaths, "solve_s": round(spent, 1), "unexplored": kx.EXHAUSTED["left"]}
    if not useful:
        out.update(status="error", message="vacuous: no explored path returned a range")
    elif unknown or kx.EXHAUSTED["left"]:
        out.update(status="searched", message="no IEEE counterexample found within the budget (solver unknown)")
    else:
        out.update(status="confirmed", message="every path with another count is unsat")
    return out


def ob_range_nominal(start: float, step: float) -> bool:
    """
    pre: 0 <= start <= 1000000 and 0.000001 <= step <= 1000
    post: _
    """
    # replay target of the nominal IEEE search: the caller asks for N steps and computes stop = start + N*step in
    # doubles (the property's quantifier: "every start, step, number of steps", 0.1 and 1/44100 included); the
    # range then has exactly N coordinates, all in [start, stop)
    N = h.P("N")
    stop = start + N * step
    v = D.create_range_dim("x", start, stop, step=step)
    xs = _labels(v)
    if len(xs) != N:
        return h.fail("N steps requested (stop = start + N*step in doubles) but there are not N coordinates")
    for x in xs:
        if not (start <= x < stop):
            return h.fail("coordinate outside [start, stop)")
    return h.done(any=True)


def kx_range_nominal(params, timeout):
    """IEEE-754 search, nominal premise: the real create_range_dim is run over z3 Float64 terms with
    stop = fl(start + fl(N*step)); np.arange is its contract in doubles (length ceil((stop-start)/step) computed in
    floating point, N-1..N+1 explored; element i = start + i*((start+step)-start)); the solvers are asked for doubles
    (start, step) for which the function does not return N coordinates."""
    import time
    import types

    import z3

    from models import npl, xrl
    from vf import kx

    N = params["N"]
    start, step = kx.var("start", 0.5), kx.var("step", 0.25)
    stop = start + step * float(N)
    base = [kx.finite_between(start, 0.0, 1000000.0), kx.finite_between(step, 0.000001, 1000.0)]

    def arange(start=None, stop=None, step=1, dtype=None):
        a, b, s_ = start, stop, step
        length = kx.arange_len(a, b, s_)
        delta = (a + s_) - a
        for k in (N, N + 1, N - 1):
            if k >= 0 and kx.ZB(z3.fpEQ(length, z3.FPVal(float(k), kx.F64)), True if k == N else None):
                return npl.ndarray([a + j * delta for j in range(k)], (k,), None)
        raise kx.SymbolicBranch("range length outside N-1..N+1")

    fake_np = types.SimpleNamespace(arange=arange, float64=npl.float64, ndarray=npl.ndarray)

    def run():
        v = D.create_range_dim("x", start, stop, step=step)
        return len(v.data.tolist())

    saved = (D.np, D.xr)
    D.np, D.xr = fake_np, xrl.xarray
    queries, spent, unknown, npaths, useful = 0, 0.0, False, 0, 0
    found = None
    t0 = time.time()
    try:
        for pc, res in kx.explore_iter(run, max_paths=24, base=base, prune_timeout_ms=3000, deadline=t0 + timeout):
            npaths += 1
            if isinstance(res, Exception):
                unknown = True
                continue
            useful += 1
            if res == N:
                continue
            left = timeout - (time.time() - t0)
            if left < 5:
                unknown = True
                break
            r = kx.solve(base + pc, max(10.0, left / 2), {"start": start, "step": step})
            queries += 1
            spent += r["solve_s"]
            if r["status"] == "sat":
                found = (r["model"], res)
                break
            if r["status"] != "unsat":
                unknown = True
    finally:
        D.np, D.xr = saved
    if found is not None:
        m, res = found
        return {"status": "refuted", "backend": kx.LAST["backend"], "replay_fn": "ob_range_nominal",
                "args": [[m["start"], m["step"]], {}], "queries": queries, "paths": npaths, "solve_s": round(spent, 1),
                "message": "solver model: %d steps requested but %d coordinates for start=%r step=%r"
                % (N, res, m["start"], m["step"]),
                "clause": "N steps requested (stop = start + N*step in doubles) but there are not N coordinates"}
    out = {"queries": queries, "paths": npaths, "solve_s": round(spent, 1), "unexplored": kx.EXHAUSTED["left"]}
    if not useful:
        out.update(status="error", message="vacuous: no explored path returned a range")
    elif unknown or kx.EXHAUSTED["left"]:
        out.update(status="searched", message="no IEEE counterexample found within the budget (solver unknown)")
    else:
        out.update(status="confirmed", message="every path with another count is unsat")
    return out


def plan():
    q = ("quick", "thorough")
    obs = []
    for which in ("range", "size", "time-step", "time-samplerate", "frequency"):
        for N in (0, 1, 2, 3, 5, 8):
            for exact in (True, False):
                if which == "size" and (not exact or N == 0):
                    continue
                quick = (which == "range" and N in (0, 1, 3, 8)) or (which != "range" and N == 3 and exact)
                obs.append(Ob("%s-N%d-%s" % (which, N, "whole" if exact else "frac"), ob_range_whole, "real", 600,
                              dict(N=N, which=which, exact=exact), q if quick else ("thorough",),
                              twins=("whole",) if exact else ("fractional",), twin_timeout=200))
    for n in (1, 2, 3, 4):
        tw = {1: ("edge", "outside"), 2: ("inside", "edge", "outside"), 3: ("inside", "outside"), 4: ("outside",)}[n]
        obs.append(Ob("coord-index-n%d" % n, ob_coord_index, "ieee", 900, dict(n=n), q, twins=tw, twin_timeout=600))
    for N in (1, 3, 8, 100):
        obs.append(Ob("ieee-range-count-N%d" % N, kx_range_count, "kx", 600, dict(N=N), ("thorough",), kind="py"))
    for N in (3, 8):
        obs.append(Ob("ieee-range-nominal-N%d" % N, kx_range_nominal, "kx", 600, dict(N=N), ("thorough",), kind="py"))
    for (N, i) in ((3, 1), (3, 2), (5, 4), (8, 5), (8, 7)):
        obs.append(Ob("ieee-lookup-N%d-i%d" % (N, i), kx_coord_index, "kx", 600, dict(N=N, i=i),
                      ("thorough",), kind="py"))
    for (nt, nf) in ((1, 1), (2, 3), (3, 2), (3, 3)):
        for order in ("tf", "ft"):
            quick = (nt, nf) in ((2, 3),) or (nt, nf, order) == (3, 2, "ft")
            obs.append(Ob("set-value-%dx%d-%s" % (nt, nf, order), ob_set_value, "real", 1800,
                          dict(nt=nt, nf=nf, order=order), q if quick else ("thorough",),
                          twins=("cell", "line", "rejected"), twin_timeout=300))
    return obs


INFO = dict(
    functions=[
        "soundevent.arrays.dimensions: create_range_dim, create_time_range, create_frequency_range, get_dim_range, "
        "get_coord_index",
        "soundevent.arrays.operations.set_value_at_pos",
    ],
    bounds="range dimensions: start in [-1000, 1000], step in [1e-4, 1000], number of steps N in {0,1,2,3,5,8} with "
    "stop = start + N*step exactly (whole) or plus a symbolic fraction of a step — exact real arithmetic; lookup: "
    "sorted axes of 1..4 labels, EVERY finite double for labels and query (IEEE-754, comparisons only); "
    "set_value_at_pos: 1x1..3x3 arrays, both dimension orders, cell / row / column addressing",
    trusted_base=[
        "models/npl.py arange = ceil((stop-start)/step) elements start + i*step (numpy's documented contract)",
        "models/xrl.py (Variable, DataArray, indexes.min/max/get_slice_bound, .data write-through)",
        "CrossHair 0.0.110 + z3 (Real / Float64)",
    ],
    outside=[
        "IEEE-754 rounding inside np.arange (length and elements): decided in exact arithmetic only",
        "the IEEE lookup search (ieee-lookup-*) is a refutation search over the real create_range_dim + "
        "get_coord_index run on z3 Float64 terms: 'confirmed' there means every explored path is unsat, 'searched' "
        "means z3 returned unknown on some path (reported, not claimed)",

    ],
)
