"""C07 — matching is an optimal one-to-one assignment that covers every
geometry once.  Real code: evaluation/match.py match_geometries,
_select_matches.  compute_affinity is replaced by a symbolic affinity matrix
(its own contract is C06): the obligation is compositional."""

from __future__ import annotations

import itertools

from vf import h
from vf.plan import Ob

h.setup(
    fakes=("pydantic", "shp"),
    modules=("soundevent.data", "soundevent.evaluation.match", "soundevent.evaluation.affinity"),
    real_first=("numpy", "xarray", "rasterio.features", "scipy.sparse.csgraph", "scipy.optimize",
                "matplotlib.pyplot", "sklearn.metrics"),
)

from soundevent.evaluation import match as M  # noqa: E402

if h.MODEL:
    from models import npl, scp

    M.np = npl.numpy
    M.linear_sum_assignment = scp.linear_sum_assignment


class OpaqueGeometryAccess(BaseException):
    """the code under test looked inside a geometry: the symbolic-matrix obligations (which assume
    match.py only hands geometries to compute_affinity) do not apply -> inconclusive, not a violation;
    the geometric obligations below decide in that case"""


class G:
    """stand-in geometry: match.py only hands geometries to compute_affinity"""

    def __init__(self, i):
        object.__setattr__(self, "i", i)

    def __getattr__(self, name):
        raise OpaqueGeometryAccess(name)


def _pairings(n, m):
    """all one-to-one pairings (partial included) as lists of (i, j)"""
    out = []
    for k in range(0, min(n, m) + 1):
        for rows in itertools.combinations(range(n), k):
            for cols in itertools.permutations(range(m), k):
                out.append(list(zip(rows, cols)))
    return out


def ob_match(
    a00: float, a01: float, a02: float, a10: float, a11: float, a12: float, a20: float, a21: float, a22: float,
) -> bool:
    """
    pre: 0 <= a00 <= 1 and 0 <= a01 <= 1 and 0 <= a02 <= 1
    pre: 0 <= a10 <= 1 and 0 <= a11 <= 1 and 0 <= a12 <= 1
    pre: 0 <= a20 <= 1 and 0 <= a21 <= 1 and 0 <= a22 <= 1
    post: _
    """
    n, m = h.P("n"), h.P("m")
    A = [[a00, a01, a02], [a10, a11, a12], [a20, a21, a22]]
    calls = []

    def affinity(g1, g2, time_buffer=0.01, freq_buffer=100):
        calls.append((g1.i, g2.i))
        return A[g1.i][g2.i]

    saved = M.compute_affinity
    M.compute_affinity = affinity
    try:
        res = list(M.match_geometries([G(i) for i in range(n)], [G(j) for j in range(m)]))
    finally:
        M.compute_affinity = saved
    src_seen = [0] * n
    tgt_seen = [0] * m
    total = 0
    npairs = 0
    zero_pair = False
    for item in res:
        if len(item) != 3:
            return h.fail("malformed match tuple")
        i, j, a = item
        if i is not None:
            if not 0 <= i < n:
                return h.fail("source index out of range")
            src_seen[i] += 1
        if j is not None:
            if not 0 <= j < m:
                return h.fail("target index out of range")
            tgt_seen[j] += 1
        if i is None and j is None:
            return h.fail("match with neither side")
        if i is not None and j is not None:
            npairs += 1
            if not (a == A[i][j]):
                return h.fail("reported affinity is not the affinity of the pair")
            if not (A[i][j] > 0):
                return h.fail("pair with zero affinity")
        else:
            if not (a == 0):
                return h.fail("unpaired entry reports a non-zero affinity")
        total = total + a
    for c in src_seen:
        if c != 1:
            return h.fail("a source index is not mentioned exactly once")
    for c in tgt_seen:
        if c != 1:
            return h.fail("a target index is not mentioned exactly once")
    for alt in _pairings(n, m):
        t = 0
        for (i, j) in alt:
            t = t + A[i][j]
        if t > total:
            return h.fail("sum of reported affinities is not the maximum over one-to-one pairings")
    return h.done(paired=(npairs > 0), unpaired=(npairs < max(n, m)), full=(npairs == min(n, m) and npairs > 0))


def ob_match_geo(s0: float, s1: float, t0: float, t1: float, w0: float, w1: float, tb: float) -> bool:
    """
    pre: 0 <= s0 <= 100 and 0 <= s1 <= 100 and 0 <= t0 <= 100 and 0 <= t1 <= 100
    pre: 0 <= w0 <= 10 and 0 <= w1 <= 10 and 0.001 <= tb <= 10
    post: _
    """
    # real geometries, real compute_affinity: sources are time stamps, targets time stamps or intervals
    from soundevent import data
    from soundevent.evaluation import affinity as AFF

    n, m, kind = h.P("n"), h.P("m"), h.P("kind")
    src = [data.TimeStamp(coordinates=t) for t in (s0, s1)][:n]
    if kind == "stamp":
        tgt = [data.TimeStamp(coordinates=t) for t in (t0, t1)][:m]
    else:
        tgt = [data.TimeInterval(coordinates=[t, t + w]) for t, w in ((t0, w0), (t1, w1))][:m]
    A = [[AFF.compute_affinity(a, b, time_buffer=tb, freq_buffer=100) for b in tgt] for a in src]
    res = list(M.match_geometries(src, tgt, time_buffer=tb, freq_buffer=100))
    src_seen = [0] * n
    tgt_seen = [0] * m
    total = 0
    npairs = 0
    for (i, j, a) in res:
        if i is not None:
            src_seen[i] += 1
        if j is not None:
            tgt_seen[j] += 1
        if i is not None and j is not None:
            npairs += 1
            if not (a == A[i][j]):
                return h.fail("reported affinity is not the affinity of the pair")
            if not (A[i][j] > 0):
                return h.fail("pair with zero affinity")
        elif not (a == 0):
            return h.fail("unpaired entry reports a non-zero affinity")
        total = total + a
    if any(c != 1 for c in src_seen) or any(c != 1 for c in tgt_seen):
        return h.fail("an index is not mentioned exactly once")
    for alt in _pairings(n, m):
        t = 0
        for (i, j) in alt:
            t = t + A[i][j]
        if t > total:
            return h.fail("sum of reported affinities is not the maximum over one-to-one pairings")
    return h.done(paired=(npairs > 0), unpaired=(npairs == 0))


def plan():
    q = ("quick", "thorough")
    obs = []
    # (2x2 with the real compute_affinity was tried: undecided after 900 + 1800 s, so it is not part of the plan)
    for (n, m, kind) in ((1, 1, "stamp"), (1, 1, "interval"), (2, 1, "stamp"), (1, 2, "interval"), (2, 1, "interval"),
                         (1, 2, "stamp")):
        quick = (n, m, kind) in ((1, 1, "stamp"), (1, 1, "interval"), (2, 1, "stamp"), (1, 2, "interval"))
        obs.append(Ob("match-geo-%dx%d-%s" % (n, m, kind), ob_match_geo, "real", 900,
                      dict(n=n, m=m, kind=kind), q if quick else ("thorough",), twins=("paired", "unpaired"),
                      twin_timeout=300))
    for n in range(0, 4):
        for m in range(0, 4):
            big = n * m >= 6
            tw = ()
            if n and m:
                tw = ("paired", "full") + (("unpaired",) if True else ())
            obs.append(Ob("match-%dx%d" % (n, m), ob_match, "real", 900 if big else 300, dict(n=n, m=m),
                          ("thorough",) if (n, m) == (3, 3) else q, twins=tw, twin_timeout=120))
    return obs


INFO = dict(
    functions=["soundevent.evaluation.match: match_geometries, _select_matches"],
    bounds="list lengths 0..3 x 0..3 (3x3 in the thorough tier), every affinity matrix with entries in [0,1] "
    "(exact reals), all ties and all-zero rows included",
    trusted_base=[
        "models/npl.py (zeros, 2-D indexing)",
        "models/scp.py linear_sum_assignment: SOME optimal full assignment (solver-chosen among all candidates, "
        "non-optimal choices discarded) honouring the maximize flag — scipy's optimality is assumed",
        "compute_affinity replaced by a symbolic matrix (its contract is C06); replay uses the real numpy + real "
        "scipy with the same stub",
        "CrossHair 0.0.110 + z3 (Real)",
    ],
    outside=["more than 3 geometries per side", "the geometric affinity values themselves (C06)",
             "geometric obligations (real compute_affinity, time stamps / intervals, 2x1 and 1x2 at most) complement the "
             "symbolic-matrix ones, which assume match.py treats geometries as opaque (a code change that inspects "
             "them makes those obligations inconclusive, not failing)"],
)
