"""C09 — evaluation metrics are what their terms say, in all four tasks.
Real code: evaluation/tasks/*.py metric tables and drivers, evaluation/metrics.py
wrappers, terms/metrics.py, io/aoef (survival of the metrics)."""

from __future__ import annotations

import importlib

from vf import h
from vf.plan import Ob

h.setup(
    fakes=("pydantic", "shp"),
    modules=("soundevent.data", "soundevent.evaluation", "soundevent.io"),
    real_first=("numpy", "xarray", "rasterio.features", "scipy.sparse.csgraph", "scipy.optimize",
                "matplotlib.pyplot", "sklearn.metrics"),
)

from soundevent import data  # noqa: E402
from soundevent.evaluation import encoding as ENC  # noqa: E402
from soundevent.evaluation import match as M  # noqa: E402
from soundevent.evaluation import metrics as MET  # noqa: E402

from props import graph  # noqa: E402

TASKS = {name: importlib.import_module("soundevent.evaluation.tasks." + name)
         for name in ("clip_classification", "clip_multilabel_classification", "sound_event_classification",
                      "sound_event_detection")}

if h.MODEL:
    from models import npl, scp, skl

    for _m in [M, ENC, MET] + list(TASKS.values()):
        _m.np = npl.numpy
    M.linear_sum_assignment = scp.linear_sum_assignment
    MET.metrics = skl.metrics
    REF = skl.metrics
    NP = npl.numpy
    graph.install_mem_io()
else:
    import numpy as NP
    from sklearn import metrics as REF

# term name -> the metric wrapper it must be paired with
INTENDED = {
    "stato:accuracy": "accuracy",
    "soundevent_metrics:balancedAccuracy": "balanced_accuracy",
    "soundevent_metrics:top3Accuracy": "top_3_accuracy",
    "soundevent_metrics:meanAveragePrecision": "mean_average_precision",
    "soundevent_metrics:averagePrecision": "average_precision",
    "soundevent_metrics:jaccard": "jaccard",
    "soundevent_metrics:trueClassProbability": "true_class_probability",
}


def _pick(v, n):
    for k in range(n):
        if v == k:
            return k
    raise graph.Vacuous()


def _close(a, b):
    if h.MODEL:
        if hasattr(a, "args") or hasattr(b, "args"):
            return hasattr(a, "args") and hasattr(b, "args") and a.name == b.name and a.args == b.args
        return a == b
    fa, fb = float(a), float(b)
    if fa != fa or fb != fb:
        return fa != fa and fb != fb
    return abs(fa - fb) <= 1e-6


def ob_tables() -> bool:
    """
    post: _
    """
    for tname, mod in TASKS.items():
        for table_name in ("SOUNDEVENT_METRICS", "EXAMPLE_METRICS", "RUN_METRICS"):
            table = getattr(mod, table_name, ())
            names = [t.name for t, _ in table]
            labels = [t.label for t, _ in table]
            if len(set(names)) != len(names) or len(set(labels)) != len(labels):
                return h.fail("duplicate terms in a metric table")
            for i, (t, _) in enumerate(table):
                for j, (u, _) in enumerate(table):
                    if i < j and t == u:
                        return h.fail("duplicate terms in a metric table")
            for term, fn in table:
                want = INTENDED.get(term.name)
                if want is None or fn is not getattr(MET, want):
                    return h.fail("a term is paired with a metric it does not name")
    return h.done(any=True)


# ---- accuracy family --------------------------------------------------------


def _argmax_unique(row):
    """index of the strict maximum, None on ties (ties are outside the claim)"""
    best = None
    for i, v in enumerate(row):
        strict = True
        for j, w in enumerate(row):
            if j != i and not (v > w):
                strict = False
        if strict:
            best = i
    return best


# dyadic rows (exact in doubles, so the model and the replay see the same numbers), no ties incl. the residual
# 'none' score; one row gives class 0 a score of exactly 0
POOL2 = [[0.625, 0.25], [0.0, 0.75], [0.125, 0.1875]]
POOL3 = [[0.5, 0.25, 0.0625], [0.0625, 0.5, 0.25], [0.25, 0.0625, 0.5], [0.125, 0.25, 0.0625], [0.3125, 0.1875, 0.125]]


def _from_pool(S, K):
    """with PARAMS['pool'] the score rows are drawn from a fixed pool by the (symbolic) first score of the row,
    read as an index; otherwise the rows are the symbolic reals themselves"""
    if not h.P("pool"):
        return S
    pool = POOL2 if K == 2 else POOL3
    out = []
    for row in S:
        hit = None
        for k in range(len(pool)):
            if row[0] * 8 == k:
                hit = k
        if hit is None:
            return None
        out.append(list(pool[hit]))
    return out


def ob_accuracy_family(y0: int, y1: int, y2: int, s00: float, s01: float, s02: float, s10: float, s11: float,
                       s12: float, s20: float, s21: float, s22: float) -> bool:
    """
    pre: 0 <= s00 and 0 <= s01 and 0 <= s02 and 0 <= s10 and 0 <= s11 and 0 <= s12 and 0 <= s20 and 0 <= s21 and 0 <= s22
    pre: s00 + s01 + s02 <= 1 and s10 + s11 + s12 <= 1 and s20 + s21 + s22 <= 1
    post: _
    """
    N, K = h.P("N"), h.P("K")
    try:
        ys = [_pick(v, K + 1) for v in (y0, y1, y2)][:N]  # K means 'no class'
    except graph.Vacuous:
        return True
    S = [[s00, s01, s02][:K], [s10, s11, s12][:K], [s20, s21, s22][:K]][:N]
    S = _from_pool(S, K)
    if S is None:
        return True
    full = [row + [1 - sum(row)] for row in S]
    pred = [_argmax_unique(r) for r in full]
    if any(p is None for p in pred):
        return True  # ties in the predicted class are outside the claim
    y_true = [None if y == K else y for y in ys]
    y_score = NP.array(S)
    acc = MET.accuracy(y_true, y_score)
    want_acc = sum(1 for y, p in zip(ys, pred) if y == p) / N
    if not _close(acc, want_acc):
        return h.fail("accuracy differs from the fraction of items whose top class (with the 'none' class) is true")
    bal = MET.balanced_accuracy(y_true, y_score)
    classes = sorted(set(ys))
    rec = 0
    for c in classes:
        n = sum(1 for y in ys if y == c)
        tp = sum(1 for y, p in zip(ys, pred) if y == c and p == c)
        rec = rec + tp / n
    if not _close(bal, rec / len(classes)):
        return h.fail("balanced accuracy differs from the mean per-class recall (with the 'none' class)")
    if K + 1 > 3:
        top3 = MET.top_3_accuracy(y_true, y_score)
        hits = 0
        tie = False
        for y, row in zip(ys, full):
            ahead = sum(1 for j, v in enumerate(row) if j != y and v > row[y])
            equal = sum(1 for j, v in enumerate(row) if j != y and v == row[y])
            if equal:
                tie = True
            if ahead < 3:
                hits += 1
        if not tie and not _close(top3, hits / N):
            return h.fail("top-3 accuracy differs from the fraction of items whose true class is among the 3 best")
    return h.done(right=(want_acc == 1), wrong=(want_acc == 0), mixed=(0 < want_acc < 1))


def ob_true_class_probability(y: int, s0: float, s1: float, s2: float) -> bool:
    """
    pre: 0 <= s0 and 0 <= s1 and 0 <= s2 and s0 + s1 + s2 <= 1
    post: _
    """
    try:
        k = _pick(y, 4)
    except graph.Vacuous:
        return True
    S = NP.array([s0, s1, s2])
    yt = None if k == 3 else k
    want = [s0, s1, s2][k] if k < 3 else 1 - (s0 + s1 + s2)
    if not _close(MET.true_class_probability(yt, S), want) or not _close(MET.classification_score(yt, S), want):
        return h.fail("true-class probability is not the score of the true class (1 - sum for 'none')")
    return h.done(labelled=(k < 3), none=(k == 3))


# ---- task drivers -----------------------------------------------------------

VOCAB = [0, 1]


def _term(k):
    return data.Term(label=h.S(k, "label"), name=h.S(k, "name"), definition=h.S(0, "def"))


def _tag(code):
    return data.Tag(term=_term(code), value=h.S(code, "val"))


def _metric_map(features):
    out = {}
    for f in features:
        if f.term.name in out:
            return None
        out[f.term.name] = f.value
    return out


def _clips(n):
    rec = data.Recording(uuid=h.U(1), path="/d/a.wav", duration=10.0, channels=1, samplerate=8000)
    return rec, [data.Clip(uuid=h.U(50 + k), recording=rec, start_time=float(k), end_time=float(k) + 1)
                 for k in range(n)]


def ob_clip_classification(t0: int, t1: int, t2: int, p00: float, p01: float, p10: float, p11: float, p20: float,
                           p21: float) -> bool:
    """
    pre: 0 <= p00 and 0 <= p01 and p00 + p01 <= 1 and 0 <= p10 and 0 <= p11 and p10 + p11 <= 1
    pre: 0 <= p20 and 0 <= p21 and p20 + p21 <= 1
    post: _
    """
    N = h.P("N")
    try:
        codes = [_pick(t, 4) for t in (t0, t1, t2)][:N]  # 0, 1 vocabulary; 2 outside; 3 untagged
    except graph.Vacuous:
        return True
    P = [[p00, p01], [p10, p11], [p20, p21]][:N]
    P = _from_pool(P, 2)
    if P is None:
        return True
    full = [r + [1 - sum(r)] for r in P]
    if any(_argmax_unique(r) is None for r in full):
        return True
    rec, clips = _clips(N)
    cas = [data.ClipAnnotation(uuid=h.U(60 + k), clip=clips[k], tags=[] if codes[k] == 3 else [_tag(codes[k])],
                               created_on=h.DT(1)) for k in range(N)]
    cps = [data.ClipPrediction(uuid=h.U(70 + k), clip=clips[k],
                               tags=[data.PredictedTag(tag=_tag(0), score=P[k][0]),
                                     data.PredictedTag(tag=_tag(1), score=P[k][1])]) for k in range(N)]
    vocab = [_tag(c) for c in VOCAB]
    task = TASKS["clip_classification"].clip_classification
    ev = task(cps, cas, vocab)
    ys = [c if c in (0, 1) else 2 for c in codes]
    pred = [_argmax_unique(r) for r in full]
    mm = _metric_map(ev.metrics)
    if mm is None:
        return h.fail("duplicate terms among the evaluation metrics")
    want_acc = sum(1 for y, p in zip(ys, pred) if y == p) / N
    if "stato:accuracy" not in mm or not _close(mm["stato:accuracy"], want_acc):
        return h.fail("metric labelled accuracy is not the accuracy")
    classes = sorted(set(ys))
    bal = sum(sum(1 for y, p in zip(ys, pred) if y == c and p == c) / sum(1 for y in ys if y == c)
              for c in classes) / len(classes)
    if "soundevent_metrics:balancedAccuracy" not in mm or not _close(mm["soundevent_metrics:balancedAccuracy"], bal):
        return h.fail("metric labelled balanced accuracy is not the balanced accuracy")
    if "soundevent_metrics:top3Accuracy" not in mm or not _close(mm["soundevent_metrics:top3Accuracy"], 1.0):
        return h.fail("metric labelled top-3 accuracy is not the top-3 accuracy")
    scores = []
    for k, ce in enumerate(ev.clip_evaluations):
        want = P[k][ys[k]] if ys[k] < 2 else 1 - (P[k][0] + P[k][1])
        cm = _metric_map(ce.metrics)
        if cm is None or not _close(cm.get("soundevent_metrics:trueClassProbability", -1), want):
            return h.fail("clip metric true-class probability wrong")
        if ce.score is None or not _close(ce.score, want):
            return h.fail("clip score is not the true-class probability")
        scores.append(want)
    if len(ev.clip_evaluations) != N or not _close(ev.score, sum(scores) / N):
        return h.fail("overall score is not the mean of the clip scores")
    if not h.P("check_order", True):
        return h.done(any=True, unlabelled=any(y == 2 for y in ys))
    # order of clips does not matter
    ev2 = task(cps[::-1], cas, vocab)
    m2 = _metric_map(ev2.metrics)
    if m2 is None or set(m2) != set(mm) or any(not _close(m2[k], mm[k]) for k in mm) or not _close(ev2.score, ev.score):
        return h.fail("result depends on the order of the clips")
    if not h.P("check_aoef", True):
        return h.done(any=True, unlabelled=any(y == 2 for y in ys))
    # survives an AOEF save/load with every metric intact
    loaded = graph.cycle(ev)
    lm = {f.term.label: f.value for f in loaded.metrics}
    om = {f.term.label: f.value for f in ev.metrics}
    if len(loaded.metrics) != len(ev.metrics) or set(lm) != set(om) or any(not _close(lm[k], om[k]) for k in om):
        return h.fail("a metric is lost or changed by an AOEF save/load")
    return h.done(any=True, unlabelled=any(y == 2 for y in ys))


def ob_multilabel(a0: int, a1: int, p00: float, p01: float, p10: float, p11: float) -> bool:
    """
    pre: 0 <= p00 <= 1 and 0 <= p01 <= 1 and 0 <= p10 <= 1 and 0 <= p11 <= 1
    post: _
    """
    N = h.P("N")
    try:
        sets = [_pick(a, 4) for a in (a0, a1)][:N]  # bitmask over the two vocabulary tags
    except graph.Vacuous:
        return True
    P = [[p00, p01], [p10, p11]][:N]
    rec, clips = _clips(N)
    cas = [data.ClipAnnotation(uuid=h.U(60 + k), clip=clips[k],
                               tags=[_tag(c) for c in (0, 1) if sets[k] & (1 << c)] + [_tag(2)], created_on=h.DT(1))
           for k in range(N)]
    cps = [data.ClipPrediction(uuid=h.U(70 + k), clip=clips[k],
                               tags=[data.PredictedTag(tag=_tag(0), score=P[k][0]),
                                     data.PredictedTag(tag=_tag(1), score=P[k][1])]) for k in range(N)]
    vocab = [_tag(c) for c in VOCAB]
    ev = TASKS["clip_multilabel_classification"].clip_multilabel_classification(cps, cas, vocab)
    Y = [[1 if sets[k] & 1 else 0, 1 if sets[k] & 2 else 0] for k in range(N)]
    mm = _metric_map(ev.metrics)
    if mm is None or set(mm) != {"soundevent_metrics:meanAveragePrecision"}:
        return h.fail("multilabel run metrics are not exactly {mean average precision}")
    if not h.MODEL and any(sum(col) == 0 for col in zip(*Y)):
        pass  # sklearn warns about classes without positives; value still defined
    want = REF.average_precision_score(y_true=NP.array(Y).astype(NP.float32), y_score=NP.array(P), average="macro")
    if not _close(mm["soundevent_metrics:meanAveragePrecision"], want):
        return h.fail("mean average precision is not computed from the encoded truths and predicted scores")
    for k, ce in enumerate(ev.clip_evaluations):
        cm = _metric_map(ce.metrics)
        if cm is None or set(cm) != {"soundevent_metrics:jaccard", "soundevent_metrics:averagePrecision"}:
            return h.fail("multilabel clip metrics are not exactly {jaccard, average precision}")
    return h.done(any=True)


def ob_sound_event_classification(e0: int, e1: int, t0: int, t1: int, p00: float, p01: float, p10: float,
                                  p11: float) -> bool:
    """
    pre: 0 <= p00 and 0 <= p01 and p00 + p01 <= 1 and 0 <= p10 and 0 <= p11 and p10 + p11 <= 1
    post: _
    """
    # two clips; each of <= 2 sound events lives in clip e_k (so a clip may be empty)
    NE = h.P("NE")
    try:
        where = [_pick(e, 2) for e in (e0, e1)][:NE]
        codes = [_pick(t, 4) for t in (t0, t1)][:NE]
    except graph.Vacuous:
        return True
    P = [[p00, p01], [p10, p11]][:NE]
    P = _from_pool(P, 2)
    if P is None:
        return True
    full = [r + [1 - sum(r)] for r in P]
    if any(_argmax_unique(r) is None for r in full):
        return True
    rec, clips = _clips(2)
    ses = [data.SoundEvent(uuid=h.U(10 + i), geometry=data.TimeStamp(coordinates=0.5 + where[i]), recording=rec)
           for i in range(NE)]
    anns = [data.SoundEventAnnotation(uuid=h.U(20 + i), sound_event=ses[i],
                                      tags=[] if codes[i] == 3 else [_tag(codes[i])], created_on=h.DT(1))
            for i in range(NE)]
    preds = [data.SoundEventPrediction(uuid=h.U(30 + i), sound_event=ses[i], score=1.0,
                                       tags=[data.PredictedTag(tag=_tag(0), score=P[i][0]),
                                             data.PredictedTag(tag=_tag(1), score=P[i][1])]) for i in range(NE)]
    cas = [data.ClipAnnotation(uuid=h.U(60 + k), clip=clips[k], sound_events=[a for a, w in zip(anns, where) if w == k],
                               created_on=h.DT(1)) for k in range(2)]
    cps = [data.ClipPrediction(uuid=h.U(70 + k), clip=clips[k], sound_events=[p for p, w in zip(preds, where) if w == k])
           for k in range(2)]
    try:
        ev = TASKS["sound_event_classification"].sound_event_classification(cps, cas, [_tag(c) for c in VOCAB])
    except ValueError as e:
        return h.fail("sound_event_classification raised on a legal input: " + type(e).__name__)
    mm = _metric_map(ev.metrics)
    if mm is None:
        return h.fail("duplicate terms among the evaluation metrics")
    ys = [c if c in (0, 1) else 2 for c in codes]
    # items are collected clip by clip
    order = [i for k in range(2) for i in range(NE) if where[i] == k]
    pred = [_argmax_unique(full[i]) for i in order]
    yso = [ys[i] for i in order]
    acc = sum(1 for y, p in zip(yso, pred) if y == p) / NE
    if "stato:accuracy" not in mm or not _close(mm["stato:accuracy"], acc):
        return h.fail("metric labelled accuracy is missing or is not the accuracy")
    if "soundevent_metrics:balancedAccuracy" not in mm:
        return h.fail("balanced accuracy missing")
    if "soundevent_metrics:top3Accuracy" not in mm:
        return h.fail("top-3 accuracy missing")
    clip_scores = []
    for k, ce in enumerate(ev.clip_evaluations):
        items = [i for i in range(NE) if where[i] == k]
        vals = [P[i][ys[i]] if ys[i] < 2 else 1 - (P[i][0] + P[i][1]) for i in items]
        if items:
            if ce.score is None or not _close(ce.score, sum(vals) / len(vals)):
                return h.fail("clip score is not the mean of its match scores")
            clip_scores.append(sum(vals) / len(vals))
        else:
            if ce.score is not None and ce.score == ce.score and not _close(ce.score, 0.0):
                return h.fail("empty clip has a score")
        for m_ in ce.matches:
            if m_.score is None:
                return h.fail("match without score")
    if clip_scores and not _close(ev.score, sum(clip_scores) / len(clip_scores)):
        return h.fail("overall score is not the mean of the clip scores")
    if not h.P("check_aoef", True):
        return h.done(any=True, empty_clip=(len(set(where)) < 2))
    loaded = graph.cycle(ev)
    lm = {f.term.label: f.value for f in loaded.metrics}
    om = {f.term.label: f.value for f in ev.metrics}
    if len(loaded.metrics) != len(ev.metrics) or set(lm) != set(om) or any(not _close(lm[k], om[k]) for k in om):
        return h.fail("a metric is lost or changed by an AOEF save/load")
    return h.done(any=True, empty_clip=(len(set(where)) < 2))


def plan():
    q = ("quick", "thorough")
    obs = [Ob("metric-tables", ob_tables, "real", 60, {}, q, twins=("any",))]
    for (N, K, pool) in ((1, 2, False), (1, 3, False), (2, 2, True), (3, 2, True), (2, 3, True), (3, 3, True),
                         (2, 2, False)):
        quick = (N, K, pool) in ((1, 2, False), (2, 2, True), (2, 3, True))
        obs.append(Ob("accuracy-family-N%dK%d%s" % (N, K, "-pool" if pool else ""), ob_accuracy_family, "real", 3000,
                      dict(N=N, K=K, pool=pool), q if quick else ("thorough",),
                      twins=("right", "wrong") + (("mixed",) if N > 1 else ()), twin_timeout=300))
    obs.append(Ob("true-class-probability", ob_true_class_probability, "real", 300, {}, q,
                  twins=("labelled", "none")))
    # single clip: symbolic scores, AOEF survival; two / three clips: score pool, order independence
    obs.append(Ob("clip-classification-N1", ob_clip_classification, "real", 1800,
                  dict(N=1, pool=False, check_order=False, check_aoef=True), q, twins=("any", "unlabelled"),
                  twin_timeout=300))
    obs.append(Ob("clip-classification-N2-pool", ob_clip_classification, "real", 3000,
                  dict(N=2, pool=True, check_order=True, check_aoef=False), q, twins=("any", "unlabelled"),
                  twin_timeout=300))
    obs.append(Ob("clip-classification-N3-pool", ob_clip_classification, "real", 9000,
                  dict(N=3, pool=True, check_order=True, check_aoef=False), ("thorough",), twins=("any",),
                  twin_timeout=300))
    obs.append(Ob("clip-classification-N2-pool-aoef", ob_clip_classification, "real", 9000,
                  dict(N=2, pool=True, check_order=True, check_aoef=True), ("thorough",), twins=("any",),
                  twin_timeout=300))
    for N in (1, 2):
        obs.append(Ob("multilabel-N%d" % N, ob_multilabel, "real", 1800, dict(N=N), q, twins=("any",),
                      twin_timeout=300))
    obs.append(Ob("sound-event-classification-NE1", ob_sound_event_classification, "real", 1800,
                  dict(NE=1, pool=False, check_aoef=True), q, twins=("any", "empty_clip"), twin_timeout=300))
    obs.append(Ob("sound-event-classification-NE2-pool", ob_sound_event_classification, "real", 3000,
                  dict(NE=2, pool=True, check_aoef=False), q, twins=("any", "empty_clip"), twin_timeout=300))
    obs.append(Ob("sound-event-classification-NE2-pool-aoef", ob_sound_event_classification, "real", 9000,
                  dict(NE=2, pool=True, check_aoef=True), ("thorough",), twins=("any",), twin_timeout=300))
    return obs


INFO = dict(
    functions=[
        "soundevent.evaluation.tasks.{clip_classification, clip_multilabel_classification, "
        "sound_event_classification, sound_event_detection}: metric tables and drivers",
        "soundevent.evaluation.metrics: accuracy, balanced_accuracy, top_3_accuracy, true_class_probability, "
        "classification_score, mean_average_precision, average_precision, jaccard, multilabel_example_score",
        "soundevent.evaluation.encoding, soundevent.terms.metrics, soundevent.io (AOEF survival)",
    ],
    bounds="vocabularies of 2 (and 3 for the accuracy family) tags; <= 3 clips / items with every assignment of true "
    "class (in vocabulary, outside, untagged) and symbolic predicted scores (sum <= 1; ties in the predicted class "
    "excluded); sound_event_classification with <= 2 sound events distributed over 2 clips (empty clips included); "
    "exact real arithmetic",
    trusted_base=[
        "models/skl.py: accuracy / balanced accuracy / top-k by definition; average precision, jaccard and log-loss "
        "UNINTERPRETED (the check establishes which arrays and which averaging they receive, not their value)",
        "models/npl.py, models/pyd.py, structural JSON; CrossHair 0.0.110 + z3",
    ],
    outside=["numerical values of mean average precision / average precision / Jaccard (scikit-learn's ranking "
             "code)", "ties in the predicted class", "one-tag vocabularies (scikit-learn's binary special case "
             "raises)", "float32 storage of scores"],
)
