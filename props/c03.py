"""C03 — geometry validation accepts exactly the valid geometries and
normalises them.  Real code: soundevent/data/geometries.py (all validators,
geom_type, GEOMETRY_MAPPING, geometry_validate)."""

from __future__ import annotations

import json

from vf import h
from vf.plan import Ob

h.setup(fakes=("pydantic",), modules=("soundevent.data.geometries",))

from soundevent.data import geometries as G  # noqa: E402

MAXF = 5000000  # written from the statement, compared with G.MAX_FREQUENCY below

if h.MODEL:
    from models import pyd as _pyd

    class _Json:
        JSONDecodeError = json.JSONDecodeError

        @staticmethod
        def loads(s):
            return _pyd.json_payload(s)

        @staticmethod
        def dumps(o):
            return _pyd.JsonDoc(o)

    G.json = _Json
    _dumps = _Json.dumps
else:
    _dumps = json.dumps

TYPES = [
    "TimeStamp",
    "TimeInterval",
    "Point",
    "LineString",
    "Polygon",
    "BoundingBox",
    "MultiPoint",
    "MultiLineString",
    "MultiPolygon",
]


class _Attr:
    def __init__(self, type, coordinates):
        self.type = type
        self.coordinates = coordinates


def build(tag, coords, entry):
    """Run one entry point; returns the geometry or None if rejected with a
    validation error (ValueError family).  Anything else propagates."""
    try:
        if entry == "ctor":
            return getattr(G, tag)(coordinates=coords)
        if entry == "dict":
            return G.geometry_validate({"type": tag, "coordinates": coords}, mode="dict")
        if entry == "attributes":
            return G.geometry_validate(_Attr(tag, coords), mode="attributes")
        if entry == "json":
            return G.geometry_validate(_dumps({"type": tag, "coordinates": coords}), mode="json")
    except ValueError:
        return None
    raise KeyError(entry)


# ---- independent predicates, straight from the statement -------------------


def t_ok(t):
    return t >= 0


def f_ok(f):
    return 0 <= f <= MAXF


def is_num(x):
    return isinstance(x, (int, float)) and not isinstance(x, bool)


def pt_ok(p):
    return isinstance(p, list) and len(p) == 2 and is_num(p[0]) and is_num(p[1]) and t_ok(p[0]) and f_ok(p[1])


def pts_ok(ps, minimum):
    if not isinstance(ps, list) or len(ps) < minimum:
        return False
    for p in ps:
        if not pt_ok(p):
            return False
    return True


def valid(tag, c):
    if tag == "TimeStamp":
        return is_num(c) and t_ok(c)
    if not isinstance(c, list):
        return False
    if tag == "TimeInterval":
        return len(c) == 2 and is_num(c[0]) and is_num(c[1]) and t_ok(c[0]) and t_ok(c[1]) and c[0] <= c[1]
    if tag == "Point":
        return pt_ok(c)
    if tag == "BoundingBox":
        if len(c) != 4:
            return False
        for x in c:
            if not is_num(x):
                return False
        return t_ok(c[0]) and t_ok(c[2]) and f_ok(c[1]) and f_ok(c[3])
    if tag == "LineString":
        return pts_ok(c, 2)
    if tag == "MultiPoint":
        return pts_ok(c, 1)
    if tag == "Polygon":
        if len(c) < 1:
            return False
        for ring in c:
            if not pts_ok(ring, 3):
                return False
        return True
    if tag == "MultiLineString":
        if len(c) < 1:
            return False
        for line in c:
            if not pts_ok(line, 2):
                return False
            if not line[0][0] < line[-1][0]:
                return False
        return True
    if tag == "MultiPolygon":
        if len(c) < 1:
            return False
        for poly in c:
            if not isinstance(poly, list) or len(poly) < 1:
                return False
            for ring in poly:
                if not pts_ok(ring, 3):
                    return False
        return True
    raise KeyError(tag)


def same(a, b):
    """element-wise equality of nested coordinate structures"""
    if isinstance(a, (list, tuple)):
        if not isinstance(b, (list, tuple)) or len(a) != len(b):
            return False
        for x, y in zip(a, b):
            if not same(x, y):
                return False
        return True
    if isinstance(b, (list, tuple)):
        return False
    return a == b


def normal_form(tag, c):
    """what an accepted geometry must hold, given accepted input c"""
    if tag == "BoundingBox":
        t0, f0, t1, f1 = c
        return [t1 if t0 > t1 else t0, f1 if f0 > f1 else f0, t0 if t0 > t1 else t1, f0 if f0 > f1 else f1]
    if tag == "LineString":
        if c[0][0] > c[-1][0]:
            return c[::-1]
        return c
    return c


def check(tag, coords, entry):
    """the whole clause for one (type tag, structure, entry point)"""
    if G.MAX_FREQUENCY != MAXF:
        return h.fail("MAX_FREQUENCY")
    g = build(tag, coords, entry)
    ok = valid(tag, coords)
    if g is None:
        if ok:
            return h.fail("valid geometry rejected")
        return h.done(accept=False, reject=True)
    if not ok:
        return h.fail("invalid geometry accepted")
    if type(g) is not G.GEOMETRY_MAPPING[tag] or type(g).__name__ != tag or g.type != tag:
        return h.fail("class does not match type tag")
    nf = normal_form(tag, coords)
    if not same(g.coordinates, nf):
        return h.fail("coordinates not preserved / not in normal form")
    if tag == "BoundingBox":
        c = g.coordinates
        if not (c[0] <= c[2] and c[1] <= c[3]):
            return h.fail("bounding box not normalised")
    if tag == "LineString":
        c = g.coordinates
        if not c[0][0] <= c[-1][0]:
            return h.fail("line string not forward in time")
    # re-validating the JSON dump yields an equal geometry
    g2 = G.geometry_validate(g.model_dump_json(), mode="json")
    if type(g2) is not type(g) or not same(g2.coordinates, g.coordinates) or not (g2 == g):
        return h.fail("JSON dump does not re-validate to an equal geometry")
    return h.done(accept=True, reject=False)


# ---- structure builders: concrete shapes from PARAMS, symbolic leaves -------


def mkpoint(x, y, z, arity):
    if arity == 0:
        return []
    if arity == 1:
        return [x]
    if arity == 2:
        return [x, y]
    return [x, y, z]


def ob_scalar(t: float, nest: int) -> bool:
    """
    pre: t == t
    pre: 0 <= nest <= 1
    post: _
    """
    tag = h.P("tag")
    coords = t if nest == 0 else [t]
    return check(tag, coords, h.P("entry"))


def ob_flat(a: float, b: float, c: float, d: float, e: float, n: int, nest: int) -> bool:
    """
    pre: a == a and b == b and c == c and d == d and e == e
    pre: 0 <= n <= 5
    pre: -1 <= nest <= 1
    post: _
    """
    tag = h.P("tag")
    coords = [a, b, c, d, e][:n]
    if nest == 0:
        coords = a  # scalar where a list is required
    elif nest == 1 and n >= 1:
        coords[0] = [a]  # list where a number is required
    return check(tag, coords, h.P("entry"))


def ob_points(
    x0: float, y0: float, z0: float,
    x1: float, y1: float, z1: float,
    x2: float, y2: float, z2: float,
    n: int, bad: int, arity: int, nest: int,
) -> bool:
    """
    pre: x0 == x0 and y0 == y0 and z0 == z0 and x1 == x1 and y1 == y1 and z1 == z1
    pre: x2 == x2 and y2 == y2 and z2 == z2
    pre: 0 <= n <= 3
    pre: -1 <= bad < n
    pre: 0 <= arity <= 3
    pre: 0 <= nest <= 1
    post: _
    """
    tag = h.P("tag")
    raw = [(x0, y0, z0), (x1, y1, z1), (x2, y2, z2)]
    pts = []
    for i in range(n):
        x, y, z = raw[i]
        if i == bad:
            if nest == 1:
                pts.append(x)  # a number where a point is required
            else:
                pts.append(mkpoint(x, y, z, arity))
        else:
            pts.append([x, y])
    return check(tag, pts, h.P("entry"))


def _rings(vals, shape, bad_ring, bad_pt, arity):
    """vals: flat list of floats; shape: list of ring sizes (concrete)"""
    out = []
    k = 0
    for r, m in enumerate(shape):
        ring = []
        for j in range(m):
            x, y = vals[k], vals[k + 1]
            k += 2
            if r == bad_ring and j == bad_pt:
                ring.append(mkpoint(x, y, y, arity))
            else:
                ring.append([x, y])
        out.append(ring)
    return out


def ob_rings(
    v0: float, v1: float, v2: float, v3: float, v4: float, v5: float,
    v6: float, v7: float, v8: float, v9: float, v10: float, v11: float,
    v12: float, v13: float,
    bad_ring: int, bad_pt: int, arity: int,
) -> bool:
    """
    pre: v0 == v0 and v1 == v1 and v2 == v2 and v3 == v3 and v4 == v4 and v5 == v5 and v6 == v6
    pre: v7 == v7 and v8 == v8 and v9 == v9 and v10 == v10 and v11 == v11 and v12 == v12 and v13 == v13
    pre: -1 <= bad_ring <= 1
    pre: 0 <= bad_pt <= 3
    pre: 0 <= arity <= 3
    post: _
    """
    tag = h.P("tag")
    shape = h.P("shape")  # e.g. [3, 3] two rings/lines of three points
    vals = [v0, v1, v2, v3, v4, v5, v6, v7, v8, v9, v10, v11, v12, v13]
    rings = _rings(vals, shape, bad_ring, bad_pt, arity)
    if tag == "MultiPolygon":
        split = h.P("split")  # how many rings go to the first polygon
        coords = [rings[:split], rings[split:]] if split < len(rings) else [rings]
        if h.P("empty_poly"):
            coords.append([])
    else:
        coords = rings
    return check(tag, coords, h.P("entry"))


def ob_foreign_tag(t: float, which: int) -> bool:
    """
    pre: t == t
    pre: 0 <= which <= 2
    post: _
    """
    # a tag that names no geometry class is rejected in every mode
    tag = ["Circle", "timestamp", ""][which]
    entry = h.P("entry")
    try:
        if entry == "dict":
            G.geometry_validate({"type": tag, "coordinates": t}, mode="dict")
        elif entry == "attributes":
            G.geometry_validate(_Attr(tag, t), mode="attributes")
        else:
            G.geometry_validate(_dumps({"type": tag, "coordinates": t}), mode="json")
    except ValueError:
        return h.done(reject=True)
    return h.fail("foreign type tag accepted")


def ob_ctor_wrong_tag(t: float, u: float) -> bool:
    """
    pre: t == t and u == u
    post: _
    """
    # the constructor of class A never yields an object tagged B
    try:
        g = G.TimeInterval(type="Point", coordinates=[t, u])
    except ValueError:
        return h.done(reject=True)
    return h.fail("TimeInterval constructed with a Point tag")


ENTRIES = ["ctor", "dict", "attributes", "json"]


def plan():
    obs = []
    for entry in ENTRIES:
        q = ("quick", "thorough")
        obs.append(Ob("scalar-TimeStamp-" + entry, ob_scalar, "ieee", 40, dict(tag="TimeStamp", entry=entry), q, twins=("accept", "reject")))
        for tag in ("TimeInterval", "Point", "BoundingBox"):
            obs.append(Ob("flat-%s-%s" % (tag, entry), ob_flat, "ieee", 90, dict(tag=tag, entry=entry), q, twins=("accept", "reject")))
        for tag in ("LineString", "MultiPoint"):
            obs.append(Ob("points-%s-%s" % (tag, entry), ob_points, "ieee", 240, dict(tag=tag, entry=entry), q, twins=("accept", "reject")))
        for tag in ("Polygon", "MultiLineString", "MultiPolygon"):
            shapes = [[], [3], [2], [3, 3], [3, 2]] if tag != "MultiLineString" else [[], [2], [1], [2, 2], [3, 2], [2, 1]]
            for shape in shapes:
                splits = [len(shape)] if tag != "MultiPolygon" else sorted({len(shape), 1} if shape else {0})
                for split in splits:
                    for empty_poly in ([False, True] if tag == "MultiPolygon" and shape == [3] else [False]):
                        tiers = q if (entry in ("ctor", "json") or shape in ([3, 3], [2, 2])) else ("thorough",)
                        nm = "rings-%s-%s-%s-%d%s" % (tag, entry, "x".join(map(str, shape)) or "0", split, "e" if empty_poly else "")
                        acc = [[2], [2, 2], [3, 2]] if tag == "MultiLineString" else [[3], [3, 3]]
                        tw = ("accept", "reject") if shape in acc and not empty_poly else ("reject",)
                        obs.append(Ob(nm, ob_rings, "ieee", 300, dict(tag=tag, entry=entry, shape=shape, split=split, empty_poly=empty_poly), tiers, twins=tw))
    for entry in ("dict", "attributes", "json"):
        obs.append(Ob("foreign-tag-" + entry, ob_foreign_tag, "ieee", 30, dict(entry=entry), ("quick", "thorough"), twins=("reject",)))
    obs.append(Ob("ctor-wrong-tag", ob_ctor_wrong_tag, "ieee", 30, {}, ("quick", "thorough"), twins=("reject",)))
    return obs


INFO = dict(
    functions=[
        "soundevent.data.geometries: TimeStamp/TimeInterval/Point/LineString/Polygon/BoundingBox/MultiPoint/"
        "MultiLineString/MultiPolygon field validators, BaseGeometry.geom_type, GEOMETRY_MAPPING, geometry_validate",
    ],
    bounds="points per line/ring <= 3, rings/lines <= 2, polygons <= 2, one arity/nesting defect at a symbolic "
    "position (arity 0..3), every finite double and +-inf for each coordinate (IEEE-754 binary64); NaN excluded",
    trusted_base=[
        "models/pyd.py (construction order, lax coercion of List[...]/float, ValueError->ValidationError, structural JSON)",
        "json.loads/json.dumps stubbed as identity on the document structure (text parsing is not the subject)",
        "CrossHair 0.0.110 + z3 (PreciseIeeeSymbolicFloat)",
    ],
    outside=["NaN coordinates", "non-numeric leaves (strings, None)", "more than 3 points per ring / 2 rings / 2 polygons"],
)
