"""C17 — cropping and extending keep data on its coordinates and hit the
requested size.  Real code: arrays/operations.py crop_dim, extend_dim,
crop_dim_width, extend_dim_width, adjust_dim_width; dimensions.py get_dim_step,
estimate_dim_step, get_dim_range."""

from __future__ import annotations

from vf import h
from vf.plan import Ob

h.setup(
    fakes=("pydantic",),
    modules=("soundevent.arrays",),
    real_first=("numpy", "xarray"),
)

from soundevent.arrays import dimensions as D  # noqa: E402
from soundevent.arrays import operations as O  # noqa: E402

if h.MODEL:
    from models import npl, xrl

    for _m in (D, O):
        _m.np = npl.numpy
        _m.xr = xrl.xarray
    NP, XR = npl.numpy, xrl.xarray
else:
    import numpy as NP
    import xarray as XR

TOL = 1e-9
EPS = 1e-5  # the documented open-end epsilon of crop_dim / extend_dim


def close(a, b):
    if h.MODEL:
        return a == b
    return abs(float(a) - float(b)) <= TOL * max(1.0, abs(float(b)))


def _lst(x):
    return x.tolist() if hasattr(x, "tolist") else list(x)


def _array(start, step, n, with_attr, two_d=False):
    if h.P("axis_style") == "arange":
        # coordinates as np.arange / create_range_dim store them: start + i*delta, delta = (start+step) - start
        delta = (start + step) - start
        xs = [start + i * delta for i in range(n)]
    else:
        xs = [start + i * step for i in range(n)]
    attrs = {"step": step} if with_attr else {}
    coord = XR.Variable("time", NP.array(xs), attrs)
    if two_d:
        data = [[10.0 * (i + 1) + j for j in range(2)] for i in range(n)]
        return XR.DataArray(NP.array(data), dims=("time", "frequency"),
                            coords={"time": coord, "frequency": NP.array([100.0, 200.0])}), xs
    return XR.DataArray(NP.array([10.0 * (i + 1) for i in range(n)]), dims=("time",), coords={"time": coord}), xs


def _pairs(out, two_d=False):
    xs = _lst(out.coords["time"].data)
    ds = _lst(out.data)
    if two_d:
        ds = [row[0] for row in ds]
    return list(zip(xs, ds))


def ob_crop(start: float, step: float, a: float, b: float, left_closed: bool, right_closed: bool) -> bool:
    """
    pre: -1000 <= start <= 1000 and 0.001 <= step <= 1000
    pre: a <= b
    post: _
    """
    n = h.P("n")
    two_d = h.P("two_d", False)
    arr, xs = _array(start, step, n, h.P("with_attr", True), two_d)
    if not (xs[0] <= a and b <= xs[-1]):
        return True  # requested range inside the axis
    # recorded finding: an open end is implemented as +-eps (documented parameter, default 1e-5), so a
    # coordinate lying within eps inside an open bound is dropped
    near = False
    for x in xs:
        if (not right_closed and b - EPS <= x and x < b) or (not left_closed and a < x and x <= a + EPS):
            near = True
    if h.known("C17-crop-open-end-eps", near):
        return True
    out = O.crop_dim(arr, "time", start=a, stop=b, left_closed=left_closed, right_closed=right_closed)
    want = []
    for i, x in enumerate(xs):
        inside_l = (x >= a) if left_closed else (x > a)
        inside_r = (x <= b) if right_closed else (x < b)
        if inside_l and inside_r:
            want.append((x, 10.0 * (i + 1)))
    got = _pairs(out, two_d)
    if len(got) != len(want):
        if len(got) < len(want):
            return h.fail("a sample whose coordinate lies in the requested interval is dropped")
        return h.fail("a sample outside the requested interval is kept")
    for (gx, gd), (wx, wd) in zip(got, want):
        if not (close(gx, wx) and close(gd, wd)):
            return h.fail("data not attached to its coordinate")
    return h.done(some=(len(want) > 0), none=(len(want) == 0), all=(len(want) == n))


def ob_extend(start: float, step: float, a: float, b: float, fill: float) -> bool:
    """
    pre: -1000 <= start <= 1000 and 0.001 <= step <= 1000 and -10 <= fill <= 10
    pre: a <= b
    post: _
    """
    n = h.P("n")
    K = h.P("K")  # at most K new samples on either side (unwinding bound)
    arr, xs = _array(start, step, n, h.P("with_attr", True))
    if not (a <= xs[0] and xs[-1] <= b):
        return True  # requested interval contains the current axis
    if not (xs[0] - a <= K * step and b - xs[-1] <= K * step):
        return True
    # recorded finding: the closed start is implemented as start - eps, so a lattice point lying within eps
    # below the requested start is included
    near = False
    for k in range(-K - 2, 1):
        p = start + k * step
        if a - EPS <= p and p < a:
            near = True
    if h.known("C17-extend-closed-start-eps", near):
        return True
    out = O.extend_dim(arr, "time", start=a, stop=b, fill_value=fill)
    # lattice points inside [a, b): start + k*step, k integer
    want = []
    for k in range(-K - 1, n + K + 2):
        p = start + k * step
        if p >= a and p < b:
            want.append((p, 10.0 * (k + 1) if 0 <= k < n else fill))
    if xs[-1] == b:
        # the current last sample sits exactly on the open end: the axis is kept
        want.append((xs[-1], 10.0 * n))
    got = _pairs(out)
    if len(got) != len(want):
        if len(got) < len(want):
            return h.fail("a lattice point inside the requested interval is missing")
        return h.fail("a point outside the requested interval / off the lattice is present")
    for (gx, gd), (wx, wd) in zip(got, want):
        if not close(gx, wx):
            return h.fail("axis not continued on its own lattice")
        if not close(gd, wd):
            return h.fail("original sample moved or new sample not filled")
    return h.done(grown=(len(want) > n), same=(len(want) == n))


def ob_width(start: float, step: float, fill: float) -> bool:
    """
    pre: -1000 <= start <= 1000 and 0.001 <= step <= 1000 and -10 <= fill <= 10
    post: _
    """
    n, width, position = h.P("n"), h.P("width"), h.P("position")
    arr, xs = _array(start, step, n, h.P("with_attr", True), h.P("two_d", False))
    two_d = h.P("two_d", False)
    try:
        out = O.adjust_dim_width(arr, "time", width, fill_value=fill, position=position)
    except ValueError:
        if width >= 1:
            return h.fail("width >= 1 rejected")
        return h.done(ok=False, rejected=True)
    if width < 1:
        return h.fail("width < 1 accepted")
    got = _pairs(out, two_d)
    if len(got) != width:
        return h.fail("result does not have exactly `width` samples")
    # where the original block sits
    if width <= n:
        if position == "start":
            first = 0
        elif position == "end":
            first = n - width
        else:
            first = max(0, n // 2 - width // 2)
        want = [(xs[i], 10.0 * (i + 1)) for i in range(first, first + width)]
    else:
        extra = width - n
        before = {"start": 0, "end": extra, "center": extra // 2}[position]
        want = []
        for k in range(-before, width - before):
            p = start + k * step
            want.append((p, 10.0 * (k + 1) if 0 <= k < n else fill))
    for (gx, gd), (wx, wd) in zip(got, want):
        if not close(gx, wx):
            return h.fail("coordinates are not the regular axis with the original block at the requested position")
        if not close(gd, wd):
            return h.fail("original data not kept in place / new samples not filled")
    return h.done(ok=True, rejected=False)


def ob_step(start: float, step: float) -> bool:
    """
    pre: -1000 <= start <= 1000 and 0.001 <= step <= 1000
    post: _
    """
    n = h.P("n")
    arr, xs = _array(start, step, n, h.P("with_attr"))
    got = D.get_dim_step(arr, "time")
    if not close(got, step):
        return h.fail("axis step (from attribute or estimated) is not the axis step")
    return h.done(any=True)


def kx_extend_width(params, timeout):
    """IEEE-754 search: run the real extend_dim_width over z3 Float64 scalars,
    record the arguments of every np.arange call it makes, and ask z3 for
    doubles (axis start, step) for which numpy's float range generation yields
    another number of coordinates than requested."""
    import types

    import z3

    from models import npl, xrl
    from vf import kx

    n, width, position = params["n"], params["width"], params["position"]
    extra = width - n
    expected = {"start": [extra], "end": [extra], "center": [extra // 2, extra - extra // 2]}[position]
    import math

    # sample assignment (dyadic, so exact in doubles too): tells what exact arithmetic would produce
    start, step = kx.var("start", 0.5), kx.var("step", 0.25)
    xs = [start + i * step for i in range(n)]
    records = []

    class Stop(Exception):
        pass

    def arange(a, b=None, s=1, dtype=None):
        if b is None:
            a, b = 0, a
        if all(isinstance(x, int) and not isinstance(x, bool) for x in (a, b, s)):
            r = list(range(a, b, s))
            return npl.ndarray(r, (len(r),), None)
        # float range: exact arithmetic gives ceil((b - a)/s) elements; whether doubles agree is the query
        k = max(0, math.ceil((kx.shadow(b) - kx.shadow(a)) / kx.shadow(s)))
        records.append((a, b, s, k))
        return npl.ndarray([a + i * s for i in range(k)], (k,), None)

    reindexed = []

    class RecArr(xrl.DataArray):
        def reindex(self, indexers=None, fill_value=None, **kw):
            reindexed.append(dict(indexers or {}, **kw))
            raise Stop()

    fake_np = types.SimpleNamespace(arange=arange, concatenate=npl.concatenate, float64=npl.float64,
                                    ndarray=npl.ndarray)
    if params.get("axis_style") == "arange":
        delta = (start + step) - start
        xs = [start + i * delta for i in range(n)]
    coord = xrl.Variable("time", npl.ndarray(xs, (n,), None), {"step": step})
    arr = RecArr(npl.ndarray([0.0] * n, (n,), None), dims=("time",), coords={"time": coord})
    saved = (O.np, O.xr, D.np, D.xr)
    O.np, D.np = fake_np, fake_np
    O.xr, D.xr = xrl.xarray, xrl.xarray
    try:
        try:
            O.extend_dim_width(arr, "time", width, fill_value=0.0, position=position)
        except Stop:
            pass
    finally:
        O.np, O.xr, D.np, D.xr = saved
    if not reindexed:
        return {"status": "error", "message": "kernel not recognised: extend_dim_width did not reindex"}
    wrong = []
    for (a, b, s, k) in records:
        wrong.append(z3.Not(z3.fpEQ(kx.arange_len(a, b, s), z3.FPVal(float(k), kx.F64))))
    n_labels = len(reindexed[0]["time"])
    if n_labels != width:
        # already in exact arithmetic (sample start=0.5, step=0.25) the result has another size
        return {"status": "refuted", "backend": kx.LAST["backend"], "replay_fn": "ob_width", "args": [[0.5, 0.25, 0.5], {}], "queries": 0,
                "message": "extend_dim_width builds %d coordinates for width %d" % (n_labels, width),
                "clause": "result does not have exactly `width` samples"}
    # every original sample must keep its original coordinate bit for bit (reindex matches labels exactly)
    moved = []
    if reindexed:
        new_labels = reindexed[0]["time"]
        new_labels = new_labels.tolist() if hasattr(new_labels, "tolist") else list(new_labels)
        before = {"start": 0, "end": extra, "center": extra // 2}[position]
        if len(new_labels) == width:
            for i in range(n):
                a, b = new_labels[before + i], xs[i]
                if a is b or (isinstance(a, kx.ZF) and isinstance(b, kx.ZF) and a.e.eq(b.e)):
                    continue
                moved.append(z3.Not(z3.fpEQ(kx.lift(a), kx.lift(b))))
    if not wrong and not moved:
        return {"status": "confirmed", "queries": 0,
                "note": "coordinates are generated by integer count and the original labels are passed through"}
    wrong = wrong + moved
    cons = [kx.finite_between(start, -1000.0, 1000.0), kx.finite_between(step, 0.001, 1000.0), z3.Or(*wrong)]
    r = kx.solve(cons, timeout, {"start": start, "step": step})
    res = {"queries": 1, "solve_s": r["solve_s"], "paths": 1}
    if r["status"] == "sat":
        m = r["model"]
        res.update(status="refuted", replay_fn="ob_width", args=[[m["start"], m["step"], 0.5], {}],
                   message="z3 model: float range generation yields another count, or an original coordinate is "
                   "regenerated with another bit pattern, for start=%r step=%r" % (m["start"], m["step"]),
                   clause="result does not have exactly `width` samples / original sample lost")
    elif r["status"] == "unsat":
        res.update(status="confirmed")
    else:
        res.update(status="searched", message="no IEEE counterexample found within %.0fs (z3: unknown)" % timeout)
    return res


def kx_extend_dim(params, timeout):
    """IEEE-754 search for extend_dim: the real function is run over z3 Float64 terms on an np.arange-style
    axis; every label handed to reindex at the position of an original sample must be the original term or
    provably fp-equal to it (reindex matches labels bit for bit)."""
    import math
    import types

    import z3

    from models import npl, xrl
    from vf import kx

    n = params["n"]
    start, step = kx.var("start", 0.5), kx.var("step", 0.25)
    a, b = kx.var("a", 0.125), kx.var("b", 0.5 + 0.25 * (n - 1) + 0.3)  # request: one new sample on each side
    delta = (start + step) - start
    xs = [start + i * delta for i in range(n)]
    base = [kx.finite_between(start, -1000.0, 1000.0), kx.finite_between(step, 0.001, 1000.0),
            kx.finite_between(a, -3000.0, 3000.0), kx.finite_between(b, -3000.0, 3000.0),
            z3.fpLEQ(a.e, xs[0].e), z3.fpLEQ(xs[-1].e, b.e)]
    base += [z3.fpLT(xs[i].e, xs[i + 1].e) for i in range(n - 1)]  # the axis is strictly increasing
    reindexed = []
    index_minmax = (xrl.Index.min, xrl.Index.max)
    xrl.Index.min = lambda self: self._l[0]  # sorted axis (premise above): no float comparisons needed
    xrl.Index.max = lambda self: self._l[-1]

    class Stop(Exception):
        pass

    def arange(a_, b_=None, s_=1, dtype=None):
        if b_ is None:
            a_, b_ = 0, a_
        if all(isinstance(x, (int, kx.ZI)) and not isinstance(x, bool) for x in (a_, b_, s_)):
            lo, hi, st = (int(x) for x in (a_, b_, s_))  # ZI: concretised by forking, exact value first
            r = list(range(lo, hi, st))
            return npl.ndarray(r, (len(r),), None)
        k = max(0, math.ceil((kx.shadow(b_) - kx.shadow(a_)) / kx.shadow(s_)))
        return npl.ndarray([a_ + i * s_ for i in range(k)], (k,), None)

    class RecArr(xrl.DataArray):
        def reindex(self, indexers=None, fill_value=None, **kw):
            reindexed.append(dict(indexers or {}, **kw))
            raise Stop()

    fake_np = types.SimpleNamespace(arange=arange, concatenate=npl.concatenate, float64=npl.float64,
                                    ndarray=npl.ndarray, ceil=kx.zf_ceil, floor=kx.zf_floor)

    def run():
        del reindexed[:]
        coord = xrl.Variable("time", npl.ndarray(list(xs), (n,), None), {"step": step})
        arr = RecArr(npl.ndarray([0.0] * n, (n,), None), dims=("time",), coords={"time": coord})
        try:
            O.extend_dim(arr, "time", start=a, stop=b, fill_value=0.0)
        except Stop:
            pass
        return [x for x in (reindexed[0]["time"].tolist() if reindexed else [])]

    saved = (O.np, O.xr, D.np, D.xr, O.__dict__.get("int"), O.__dict__.get("max"))
    O.np, D.np = fake_np, fake_np
    O.xr, D.xr = xrl.xarray, xrl.xarray
    O.int, O.max = kx.kx_int, kx.kx_max
    queries = 0
    unknown = False
    spent = 0.0
    npaths = 0
    useful = 0
    found = None
    try:
        # queries are posed as the paths arrive: the first path is the one the sample (exact) arithmetic takes
        for pc, labels in kx.explore_iter(run, max_paths=24, base=base, prune_timeout_ms=2000):
            npaths += 1
            if isinstance(labels, Exception) or not labels:
                continue
            # originals are a contiguous block: find where the first original should sit via the shadows
            sh = [kx.shadow(x) if isinstance(x, kx.ZF) else x for x in labels]
            try:
                pos = sh.index(kx.shadow(xs[0]))
            except ValueError:
                continue
            useful += 1
            moved = []
            for i in range(n):
                if pos + i >= len(labels):
                    break
                lab = labels[pos + i]
                if lab is xs[i] or (isinstance(lab, kx.ZF) and lab.e.eq(xs[i].e)):
                    continue
                moved.append(z3.Not(z3.fpEQ(kx.lift(lab), xs[i].e)))
            if not moved:
                continue
            wanted = {"start": start, "step": step, "a": a, "b": b}
            budget = max(5.0, (timeout - spent) / 3)
            # the mismatch depends on the axis only: look for it first, then for a request that drives the path there
            r = kx.solve_staged(base + pc + [z3.Or(*moved)], budget / 2, wanted, ("start", "step"))
            queries += 1
            spent += r["solve_s"]
            if r["status"] != "sat":
                r = kx.solve(base + pc + [z3.Or(*moved)], budget, wanted)
                queries += 1
                spent += r["solve_s"]
            if r["status"] == "sat":
                found = r["model"]
                break
            if r["status"] != "unsat":
                unknown = True
    finally:
        O.np, O.xr, D.np, D.xr = saved[:4]
        xrl.Index.min, xrl.Index.max = index_minmax
        for name, old in (("int", saved[4]), ("max", saved[5])):
            if old is None:
                delattr(O, name)
            else:
                setattr(O, name, old)
    if found is not None:
        m = found
        return {"status": "refuted", "backend": kx.LAST["backend"], "replay_fn": "ob_extend", "queries": queries, "paths": npaths,
                "args": [[m["start"], m["step"], m["a"], m["b"], 0.5], {}], "solve_s": round(spent, 1),
                "message": "solver model: an original coordinate is regenerated with another bit pattern for "
                "start=%r step=%r request=[%r, %r)" % (m["start"], m["step"], m["a"], m["b"]),
                "clause": "original sample moved or new sample not filled"}
    out = {"queries": queries, "paths": npaths, "solve_s": round(spent, 1)}
    if not useful:
        out.update(status="error", message="vacuous: no explored path reached reindex with the original axis inside")
    elif unknown:
        out.update(status="searched", message="no IEEE counterexample found within the budget (z3/cvc5: unknown)")
    else:
        out.update(status="confirmed", note="original labels are handed to reindex unchanged on every explored path")
    return out


def plan():
    q = ("quick", "thorough")
    obs = []
    for n in (2, 3, 4):
        for attr in (True, False):
            quick = (n == 3 and attr) or (n == 2 and not attr)
            obs.append(Ob("crop-n%d-%s" % (n, "attr" if attr else "est"), ob_crop, "real", 1200,
                          dict(n=n, with_attr=attr), q if quick else ("thorough",), twins=("some", "none", "all"),
                          twin_timeout=200))
            obs.append(Ob("step-n%d-%s" % (n, "attr" if attr else "est"), ob_step, "real", 300,
                          dict(n=n, with_attr=attr), q if n == 3 else ("thorough",), twins=("any",)))
        obs.append(Ob("crop2d-n%d" % n, ob_crop, "real", 1200, dict(n=n, with_attr=True, two_d=True),
                      q if n == 2 else ("thorough",), twins=("some",), twin_timeout=200))
    for n in (1, 2, 3):
        for K in (1, 2):
            for attr in (True, False):
                if n == 1 and not attr:
                    continue  # a one-sample axis has no estimable step
                quick = (n, K, attr) in ((2, 1, True), (2, 2, False), (1, 1, True))
                obs.append(Ob("extend-n%d-K%d-%s" % (n, K, "attr" if attr else "est"), ob_extend, "real", 1800,
                              dict(n=n, K=K, with_attr=attr), q if quick else ("thorough",),
                              twins=("grown", "same"), twin_timeout=300))
    for n in (1, 2, 3, 4):
        for width in (0, 1, 2, 3, 4, 5, 6, 8):
            for position in ("start", "center", "end"):
                for attr in (True, False):
                    if not attr and (n < 2 or width <= n):
                        continue
                    quick = attr and position in ("start", "center") and (n, width) in ((2, 5), (3, 1), (3, 3), (3, 8), (1, 0), (4, 2))
                    quick = quick or (not attr and (n, width, position) == (2, 4, "end"))
                    obs.append(Ob("width-n%d-w%d-%s-%s" % (n, width, position, "attr" if attr else "est"), ob_width,
                                  "real", 600, dict(n=n, width=width, position=position, with_attr=attr),
                                  q if quick else ("thorough",), twins=("ok",) if width >= 1 else ("rejected",)))
    for n in (2, 3):
        obs.append(Ob("ieee-extend-n%d" % n, kx_extend_dim, "kx", 900, dict(n=n, K=2, with_attr=True,
                                                                            axis_style="arange"), q if n == 3 else ("thorough",), kind="py"))
    for (n, width, position) in ((1, 8, "start"), (1, 4, "end"), (1, 12, "center"), (2, 9, "start"),
                                 (3, 6, "center"), (4, 7, "end"), (4, 6, "start")):
        obs.append(Ob("ieee-width-n%d-w%d-%s" % (n, width, position), kx_extend_width, "kx", 180,
                      dict(n=n, width=width, position=position, with_attr=True, axis_style="arange"), q, kind="py"))
    return obs


INFO = dict(
    functions=[
        "soundevent.arrays.operations: crop_dim, extend_dim, crop_dim_width, extend_dim_width, adjust_dim_width",
        "soundevent.arrays.dimensions: get_dim_step, estimate_dim_step, get_dim_range",
    ],
    bounds="regular axes of 1..4 samples, start in [-1000, 1000], step in [1e-3, 1000] (>> the 1e-5 open-end "
    "epsilon), step from the attribute and estimated; crop ranges anywhere inside the axis with all four closedness "
    "combinations; extend ranges containing the axis with at most K <= 2 new samples per side; widths 0..8 at "
    "start/center/end; 1-D and (time x frequency) data; exact real arithmetic",
    trusted_base=[
        "models/npl.py (arange contract, concatenate, slicing, diff/isclose/mean)",
        "models/xrl.py (label-based inclusive sel, exact-match reindex with fill, attrs kept)",
        "CrossHair 0.0.110 + z3 (Real)",
    ],
    outside=[
        "IEEE-754 rounding inside np.arange: in doubles extend_dim_width can return width+1 samples (float range "
        "generation); this is searched separately by a direct QF_FP query, not decided here",
        "more than 2 new samples per side in extend_dim; axes longer than 4",
    ],
)
