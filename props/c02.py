"""C02 — AOEF documents are self-contained and resolvable in a single pass.
Real code: as C01, observed at the document written by io.save."""

from __future__ import annotations

from vf import h
from vf.plan import Ob

from props import c01, graph  # c01 sets up the environment and the builder

REFS = {
    # list -> [(field path, target list)]
    "recordings": [("tags[]", "tags"), ("owners[]", "users"), ("notes[].created_by", "users")],
    "clips": [("recording", "recordings")],
    "sound_events": [("recording", "recordings")],
    "sequences": [("sound_events[]", "sound_events"), ("parent", "sequences")],
    "sound_event_annotations": [("sound_event", "sound_events"), ("tags[]", "tags"), ("created_by", "users"),
                                ("notes[].created_by", "users")],
    "sequence_annotations": [("sequence", "sequences"), ("tags[]", "tags"), ("created_by", "users"),
                             ("notes[].created_by", "users")],
    "clip_annotations": [("clip", "clips"), ("tags[]", "tags"), ("sound_events[]", "sound_event_annotations"),
                         ("sequences[]", "sequence_annotations"), ("notes[].created_by", "users")],
    "sound_event_predictions": [("sound_event", "sound_events"), ("tags[].0", "tags")],
    "sequence_predictions": [("sequence", "sequences"), ("tags[].0", "tags")],
    "clip_predictions": [("clip", "clips"), ("sound_events[]", "sound_event_predictions"),
                         ("sequences[]", "sequence_predictions"), ("tags[].0", "tags")],
    "matches": [("source", "sound_event_predictions"), ("target", "sound_event_annotations")],
    "clip_evaluations": [("annotations", "clip_annotations"), ("predictions", "clip_predictions"),
                         ("matches[]", "matches")],
    "tasks": [("clip", "clips"), ("status_badges[].owner", "users")],
}
TOP_REFS = [("project_tags[]", "tags"), ("evaluation_tags[]", "tags")]
ID_FIELD = {"tags": "id"}
LISTS = ["users", "tags", "recordings", "clips", "sound_events", "sequences", "sound_event_annotations",
         "sequence_annotations", "clip_annotations", "sound_event_predictions", "sequence_predictions",
         "clip_predictions", "matches", "clip_evaluations", "tasks"]


def _get(o, name):
    if isinstance(o, dict):
        return o.get(name)
    return getattr(o, name, None)


def _follow(o, path):
    """all values at a dotted path with [] for lists and .N for tuple index"""
    vals = [o]
    for part in path.split("."):
        nxt = []
        for v in vals:
            if v is None:
                continue
            if part.isdigit():
                nxt.append(v[int(part)])
                continue
            name = part[:-2] if part.endswith("[]") else part
            w = _get(v, name)
            if w is None:
                continue
            if part.endswith("[]"):
                nxt.extend(list(w))
            else:
                nxt.append(w)
        vals = nxt
    return vals


def _key(v):
    return v if isinstance(v, int) and not isinstance(v, bool) else str(v)


def check_document(doc, obj):
    """None if the document is closed under reference and defines exactly the
    reachable objects; else a description"""
    d = _get(doc, "data")
    defined = {}
    for name in LISTS:
        items = _get(d, name) or []
        ids = [_key(_get(it, ID_FIELD.get(name, "uuid"))) for it in items]
        if len(set(ids)) != len(ids):
            return "duplicate identifier in list " + name
        defined[name] = ids
    tag_ids = defined["tags"]
    if sorted(tag_ids) != list(range(len(tag_ids))):
        return "tag ids are not dense 0..n-1"
    seen_seq = set()
    for it in _get(d, "sequences") or []:
        p = _get(it, "parent")
        if p is not None and _key(p) not in seen_seq:
            return "sequence listed before its parent"
        seen_seq.add(_key(_get(it, "uuid")))
    for name, refs in REFS.items():
        for it in _get(d, name) or []:
            for path, target in refs:
                for v in _follow(it, path):
                    if defined[target].count(_key(v)) != 1:
                        return "dangling reference %s.%s -> %s" % (name, path, target)
    for path, target in TOP_REFS:
        for v in _follow(d, path):
            if defined[target].count(_key(v)) != 1:
                return "dangling reference %s -> %s" % (path, target)
    # exactly the reachable objects
    reach = graph.reachable(obj)
    tags_by_key = {}
    for it in _get(d, "tags") or []:
        tags_by_key[(_get(it, "key"), _get(it, "value"))] = it
    want_tags = set(reach.get("tags", {}).keys())
    if set(tags_by_key.keys()) != want_tags:
        if want_tags - set(tags_by_key.keys()):
            return "reachable tag not defined in the document"
        return "unreachable tag written to the document"
    for name in LISTS:
        if name == "tags":
            continue
        want = {str(k) for k in reach.get(name, {}).keys()}
        got = set(defined[name])
        if want - got:
            return "reachable object missing from list " + name
        if got - want:
            return "unreachable object written to list " + name
    return None


def ob_closed(
    b0: bool, b1: bool, b2: bool, b3: bool, b4: bool, b5: bool, b6: bool, b7: bool,
    s0: bool, s1: bool, s2: bool, s3: bool,
) -> bool:
    """
    post: _
    """
    coll = h.P("coll")
    g = dict(h.P("g"))
    for name, v in zip(h.P("gsym", []), [s0, s1, s2, s3]):
        g[name] = True if v else False
    c = c01.Win([b0, b1, b2, b3, b4, b5, b6, b7][: h.P("nbits", 8)], [], h.P("skip", 0), h.P("rest", True))
    try:
        obj = c01.build(coll, c, h.P("geom", 2), g)
    except graph.Vacuous:
        return True
    loaded, doc = graph.cycle(obj, None, None, want_doc=True)
    bad = check_document(doc, obj)
    if bad:
        return h.fail(bad)
    return h.done(any=True)


def plan():
    obs = []
    q = ("quick", "thorough")
    for coll in c01.COLLS:
        groups = [["second", "rec1_rich", "desc", "own_tags"]]
        if coll not in ("recording_set", "dataset"):
            groups = [["second", "two_events", "with_seq", "parent"],
                      ["clip1_other_rec", "se1_other_rec", "seq_two", "rich2"],
                      ["desc", "own_tags", "extra_task", "rec1_rich"]]
        for gi, gsym in enumerate(groups):
            obs.append(Ob("%s-structure%d" % (coll, gi), ob_closed, "real", 900,
                          dict(coll=coll, g=c01.RICH, gsym=gsym, nbits=0, rest=True, geom=gi % 9),
                          q, twins=("any",), twin_timeout=300))
            obs.append(Ob("%s-structure%d-min" % (coll, gi), ob_closed, "real", 900,
                          dict(coll=coll, g=c01.MIN, gsym=gsym, nbits=0, rest=False, geom=gi % 9),
                          ("thorough",), twins=("any",), twin_timeout=300))
        # users/tags that occur only in optional places: presence windows, other optionals absent
        rec_flags = c01.nflags("recording_set")
        start = 0 if coll == "recording_set" else rec_flags
        for (skip, size) in c01.windows(coll, 4, start):
            if coll in ("dataset", "evaluation_set", "model_run"):
                break
            if coll in ("evaluation", "annotation_project") and skip < c01.nflags("annotation_set"):
                continue
            obs.append(Ob("%s-flags%02d+%d" % (coll, skip, size), ob_closed, "real", 900,
                          dict(coll=coll, g=c01.RICH, gsym=[], nbits=size, skip=skip, rest=False, geom=2),
                          ("quick",), twins=("any",), twin_timeout=300))
        for (skip, size) in c01.windows(coll, 6, 0):
            for rest in (False, True):
                obs.append(Ob("%s-flags%02d+%d-%s" % (coll, skip, size, "rich" if rest else "min"), ob_closed, "real",
                              3000, dict(coll=coll, g=c01.RICH, gsym=[], nbits=size, skip=skip, rest=rest, geom=2),
                              ("thorough",), twins=("any",), twin_timeout=300))
    return obs


INFO = dict(
    functions=c01.INFO["functions"],
    bounds=c01.INFO["bounds"] + "; observation point: the document written by io.save; users that occur only as note "
    "author / badge owner / recording owner and tags that occur only in predictions, project tags or evaluation tags "
    "are covered by the presence windows (other optionals absent)",
    trusted_base=c01.INFO["trusted_base"],
    outside=c01.INFO["outside"],
)
