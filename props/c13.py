"""C13 — grouping returns the connected components of the similarity graph.
Real code: geometry/operations.py group_sound_events,
_compute_similarity_matrix."""

from __future__ import annotations

from vf import h
from vf.plan import Ob

h.setup(
    fakes=("pydantic", "shp"),
    modules=("soundevent.data", "soundevent.geometry.operations"),
    real_first=("numpy", "xarray", "rasterio.features", "scipy.sparse.csgraph", "matplotlib.pyplot"),
)

from soundevent import data  # noqa: E402
from soundevent.geometry import operations as ops  # noqa: E402

if h.MODEL:
    from models import npl, scp

    ops.np = npl.numpy
    ops.sparse = scp.sparse
    ops.connected_components = scp.connected_components

PAIRS = [(i, j) for i in range(6) for j in range(i + 1, 6)]


def ob_group(
    b01: bool, b02: bool, b03: bool, b04: bool, b05: bool, b12: bool, b13: bool, b14: bool, b15: bool,
    b23: bool, b24: bool, b25: bool, b34: bool, b35: bool, b45: bool,
) -> bool:
    """
    post: _
    """
    n = h.P("n")
    bits = [b01, b02, b03, b04, b05, b12, b13, b14, b15, b23, b24, b25, b34, b35, b45]
    rel = {}
    for (i, j), b in zip(PAIRS, bits):
        if j < n:
            rel[(i, j)] = b
    rec = data.Recording(uuid=h.U(1), path="a.wav", duration=10.0, channels=1, samplerate=8000)
    events = [
        data.SoundEvent(uuid=h.U(100 + i), geometry=data.TimeStamp(coordinates=float(i)), recording=rec)
        for i in range(n)
    ]
    index = {id(e): i for i, e in enumerate(events)}
    bad_call = []

    def similar(a, b):
        i, j = index.get(id(a)), index.get(id(b))
        if i is None or j is None or i == j:
            bad_call.append((i, j))
            return False
        return rel[(i, j) if i < j else (j, i)]

    seqs = ops.group_sound_events(events, similar)
    if bad_call:
        return h.fail("comparison function called on a non-pair of distinct input events")
    if n == 0:
        if len(seqs) != 0:
            return h.fail("empty input gives sequences")
        return h.done(any=True, chain=False, isolated=False)
    # independent components: union-find by repeated relabelling
    comp = list(range(n))
    for (i, j), b in rel.items():
        if b:
            ci, cj = comp[i], comp[j]
            if ci != cj:
                comp = [ci if c == cj else c for c in comp]
    where = {}
    for k, s in enumerate(seqs):
        if not isinstance(s, data.Sequence):
            return h.fail("result element is not a Sequence")
        last = -1
        for e in s.sound_events:
            i = index.get(id(e))
            if i is None:
                return h.fail("foreign sound event in a sequence")
            if i in where:
                return h.fail("sound event in more than one sequence / repeated")
            if i < last:
                return h.fail("input order not kept inside a sequence")
            last = i
            where[i] = k
        if not s.sound_events:
            return h.fail("empty sequence")
    if len(where) != n:
        return h.fail("a sound event is in no sequence")
    for i in range(n):
        for j in range(i + 1, n):
            if (where[i] == where[j]) != (comp[i] == comp[j]):
                return h.fail("same sequence is not equivalent to connected by a chain")
    ncomp = len(set(comp))
    # a chain: connected pair that is not directly similar
    chain = False
    for (i, j), b in rel.items():
        if comp[i] == comp[j] and not b:
            chain = True
    isolated = any(sum(1 for c in comp if c == comp[i]) == 1 for i in range(n))
    return h.done(any=True, chain=chain, isolated=isolated and ncomp < n)


def plan():
    q = ("quick", "thorough")
    obs = []
    for n in range(0, 7):
        tiers = q if n <= 4 else ("thorough",)
        tw = ("any",)
        if n >= 3:
            tw = ("any", "chain", "isolated")
        if n == 6:
            # 32768 relations: out of budget for an exhaustive verdict, not registered
            continue
        obs.append(Ob("group-n%d" % n, ob_group, "real", {0: 60, 1: 60, 2: 60, 3: 120, 4: 600, 5: 3000}[n],
                      dict(n=n), tiers, twins=tw))
    return obs


INFO = dict(
    functions=["soundevent.geometry.operations: group_sound_events, _compute_similarity_matrix"],
    bounds="n = 0..4 sound events (quick), 5 (thorough): EVERY symmetric relation on them (2^(n(n-1)/2) graphs, "
    "one symbolic boolean per unordered pair); the statement's 6 nodes (32768 graphs) are out of budget",
    trusted_base=[
        "models/scp.py: coo_array = edge list; connected_components = components of the undirected closure "
        "(scipy's directed=True, connection='weak' default)",
        "models/pyd.py, models/npl.py (np.int8 marker only)",
        "CrossHair 0.0.110 + z3",
    ],
    outside=["n >= 6", "non-symmetric comparison functions"],
)
