"""C18 — audio paths are stored relative to the audio directory and relocate
on load.  Real code: io.save / io.load, to_aeof / to_soundevent, constructors of
all eight collection adapters, RecordingAdapter.assemble_aoef /
assemble_soundevent."""

from __future__ import annotations

import pathlib

from vf import h
from vf.plan import Ob

from props import c01, graph  # c01 sets up the environment

NAMES = ["a.wav", "réc ording 1.WAV", "sub dir/ünï/x y.wav", "deep/er/and/deeper/f.flac"]
DIRS = ["/data/audio", "/data/audio/site A", "/mnt/é x/audio", "audio", "rel dir/audio"]
OUTSIDE = ["/elsewhere/a.wav", "/data/audio2/a.wav", "/data/a.wav"]
OUTSIDE_REL = ["elsewhere/a.wav", "audio2/a.wav", "a.wav"]


def _doc_paths(doc):
    d = doc["data"] if isinstance(doc, dict) else doc.data
    recs = d["recordings"] if isinstance(d, dict) else d.recordings
    return [str(r["path"] if isinstance(r, dict) else r.path) for r in recs]


def ob_paths(in0: bool, in1: bool, as_str: bool, load_str: bool, relocate: bool, n0: int) -> bool:
    """
    pre: 0 <= n0 <= 3
    post: _
    """
    coll = h.P("coll")
    A = DIRS[h.P("dirA")]
    B = DIRS[h.P("dirB")]
    in0 = True if in0 else False
    in1 = True if in1 else False
    k0 = [k for k in range(4) if n0 == k][0]
    name0 = NAMES[k0]
    name1 = NAMES[(k0 + 1) % 4]
    out = (OUTSIDE if A.startswith("/") else OUTSIDE_REL)[k0 % 3]
    p0 = (A + "/" + name0) if in0 else out
    p1 = (A + "/r1/" + name1) if in1 else (out + ".1.wav")
    b_builder_paths = {0: p0, 1: p1}
    obj = _build(coll, b_builder_paths)
    recs = sorted(graph.reachable(obj).get("recordings", {}).values(), key=lambda r: str(r.uuid))
    audio_save = A if as_str else pathlib.Path(A)
    use_dir = h.P("with_dir")
    if not use_dir:
        loaded, doc = graph.cycle(obj, None, None, want_doc=True)
        want = sorted(str(r.path) for r in recs)
        if sorted(_doc_paths(doc)) != want:
            return h.fail("without an audio directory the stored path is not the original")
        got = sorted(str(r.path) for r in graph.reachable(loaded).get("recordings", {}).values())
        if got != want:
            return h.fail("without an audio directory the loaded path is not the original")
        return h.done(ok=True, rejected=False)
    all_inside = all(str(r.path).startswith(A + "/") for r in recs)
    target = (B if load_str else pathlib.Path(B)) if relocate else audio_save
    try:
        loaded, doc = graph.cycle(obj, audio_save, target, want_doc=True)
    except ValueError:
        if all_inside:
            return h.fail("saving raised although every recording lies inside the audio directory")
        return h.done(ok=False, rejected=True)
    if not all_inside:
        return h.fail("a recording outside the audio directory was written")
    rel = sorted(str(pathlib.PurePosixPath(str(r.path)).relative_to(A)) for r in recs)
    if sorted(_doc_paths(doc)) != rel:
        return h.fail("stored path is not the path relative to the audio directory")
    base = B if relocate else A
    want = sorted(base + "/" + x for x in rel)
    got = sorted(str(r.path) for r in graph.reachable(loaded).get("recordings", {}).values())
    if got != want:
        return h.fail("loaded path is not the load directory joined with the stored path")
    return h.done(ok=True, rejected=False)


def _build(coll, paths):
    orig = graph.Builder.recording

    def recording(self, k, c, rich_lists=None, path=None):
        return orig(self, k, c, rich_lists, path=paths[k])

    graph.Builder.recording = recording
    try:
        # minimal leaves, full structure: only the recordings' paths matter here
        g = dict(c01.RICH)
        g.update(rich2=False, rec1_rich=False)
        return c01.build(coll, graph.Fixed(False), 2, g)
    finally:
        graph.Builder.recording = orig


def ob_rejected_writes_nothing(o0: int, which: int) -> bool:
    """
    pre: 0 <= o0 <= 2 and 0 <= which <= 1
    post: _
    """
    # a recording outside the directory: error, and the document is not written
    from soundevent import io

    coll = h.P("coll")
    A = DIRS[0]
    out = OUTSIDE[[k for k in range(3) if o0 == k][0]]
    paths = {0: A + "/a.wav", 1: A + "/b.wav"}
    paths[0 if which == 0 else 1] = out
    obj = _build(coll, paths)
    if h.MODEL:
        doc = graph.MemPath()
        try:
            io.save(obj, doc, audio_dir=A)
        except ValueError:
            if doc.writes != 0 or doc.text is not None:
                return h.fail("something was written although saving failed")
            return h.done(rejected=True)
        return h.fail("a recording outside the audio directory was written")
    import os
    import tempfile

    d = tempfile.mkdtemp(prefix="verif_c18_")
    p = os.path.join(d, "doc.json")
    try:
        try:
            io.save(obj, p, audio_dir=A)
        except ValueError:
            if os.path.exists(p):
                return h.fail("something was written although saving failed")
            return h.done(rejected=True)
        return h.fail("a recording outside the audio directory was written")
    finally:
        if os.path.exists(p):
            os.remove(p)
        os.rmdir(d)


def plan():
    q = ("quick", "thorough")
    obs = []
    for ci, coll in enumerate(c01.COLLS):
        obs.append(Ob("%s-with-dir" % coll, ob_paths, "real", 900,
                      dict(coll=coll, with_dir=True, dirA=ci % 3, dirB=(ci + 1) % 3), q,
                      twins=("ok", "rejected"), twin_timeout=200))
        obs.append(Ob("%s-no-dir" % coll, ob_paths, "real", 600,
                      dict(coll=coll, with_dir=False, dirA=0, dirB=1), q, twins=("ok",), twin_timeout=200))
        obs.append(Ob("%s-outside-writes-nothing" % coll, ob_rejected_writes_nothing, "real", 300, dict(coll=coll), q,
                      twins=("rejected",), twin_timeout=200))
        # relative audio directory and relative recording paths
        obs.append(Ob("%s-with-relative-dir" % coll, ob_paths, "real", 900,
                      dict(coll=coll, with_dir=True, dirA=3 + ci % 2, dirB=ci % 3),
                      q if ci % 3 == 0 else ("thorough",), twins=("ok", "rejected"), twin_timeout=200))
        for a in range(5):
            for b in range(5):
                if (a, b) in ((ci % 3, (ci + 1) % 3), (3 + ci % 2, ci % 3)):
                    continue
                obs.append(Ob("%s-with-dir-%d%d" % (coll, a, b), ob_paths, "real", 900,
                              dict(coll=coll, with_dir=True, dirA=a, dirB=b), ("thorough",), twins=("ok",),
                              twin_timeout=200))
    return obs


INFO = dict(
    functions=[
        "soundevent.io.saver.save / loader.load, soundevent.io.aoef save / load / to_aeof / to_soundevent",
        "constructors of the eight collection adapters (audio_dir threading)",
        "soundevent.io.aoef.recording.RecordingAdapter.assemble_aoef / assemble_soundevent",
    ],
    bounds="all eight collection types; two recordings each symbolically inside or outside the audio directory; "
    "audio directory given as str or Path on save and on load; load under the same or another directory; file names "
    "from a fixed list with unicode, spaces and nesting up to depth 4; directories of depth 1-3, absolute and relative (recordings relative as well)",
    trusted_base=["models/pyd.py", "pathlib (real, executed concretely)", "document file replaced by an in-memory cell",
                  "CrossHair 0.0.110 + z3 (choices only; the path strings are concrete)"],
    outside=["Windows path flavours", "symlinks", "'..' components"],
)
