"""C19 — tag encoding projects faithfully onto the vocabulary; equal objects
hash equally.  Real code: evaluation/encoding.py (SimpleEncoder,
create_tag_encoder, classification_encoding, multilabel_encoding,
prediction_encoding) and the hand-written __hash__ of eight data classes."""

from __future__ import annotations

from vf import h
from vf.plan import Ob

h.setup(
    fakes=("pydantic",),
    modules=("soundevent.data", "soundevent.evaluation.encoding"),
    real_first=("numpy",),
)

from soundevent import data  # noqa: E402
from soundevent.evaluation import encoding as enc  # noqa: E402

from props import graph  # noqa: E402

if h.MODEL:
    from models import npl

    enc.np = npl.numpy


def _pick(v, n):
    for k in range(n):
        if v == k:
            return k
    raise graph.Vacuous()


def mk_tag(code):
    """a tag from a code 0..11: (name, label, definition, value) atoms chosen so
    that terms sharing a name or a label but differing elsewhere all occur"""
    name = code % 2
    label = (code // 2) % 2
    value = (code // 4) % 3
    definition = 0 if code < 12 else 1
    term = data.Term(name=h.S(name, "n"), label=h.S(label, "l"), definition=h.S(definition, "d"))
    return data.Tag(term=term, value=h.S(value, "v"))


def tag_eq_by_code(a, b):
    return a == b


def ob_encoder(q0: int, q1: int, q2: int, nq: int, s0: float, s1: float, s2: float) -> bool:
    """
    pre: 0 <= s0 <= 1 and 0 <= s1 <= 1 and 0 <= s2 <= 1
    post: _
    """
    NV = h.P("codes", 6)
    vc = list(h.P("vocab"))  # concrete vocabulary of pairwise distinct tag codes
    n = len(vc)
    try:
        m = _pick(nq, 1 + h.P("maxq", 3))
        qc = [_pick(v, NV) for v in (q0, q1, q2)][:m]
    except graph.Vacuous:
        return True
    vocab = [mk_tag(c) for c in vc]
    query = [mk_tag(c) for c in qc]
    scores = [s0, s1, s2][:m]
    e = enc.create_tag_encoder(vocab)
    if e.num_classes != n:
        return h.fail("num_classes differs from the vocabulary size")
    # encode <=> equality with the i-th vocabulary tag; decode/encode identity
    for i, t in enumerate(vocab):
        if e.encode(t) != i:
            return h.fail("decoding then encoding is not the identity")
        if not (e.decode(i) == t):
            return h.fail("decode returns another tag")
    for t, c in zip(query, qc):
        got = e.encode(t)
        want = vc.index(c) if c in vc else None
        if got != want:
            return h.fail("encode differs from 'index of the equal vocabulary tag, else nothing'")
    # classification: first tag that is in the vocabulary
    want_cls = None
    for c in qc:
        if c in vc:
            want_cls = vc.index(c)
            break
    if enc.classification_encoding(query, e) != want_cls:
        return h.fail("classification_encoding is not the index of the first in-vocabulary tag")
    # multilabel: indicator vector
    ml = enc.multilabel_encoding(query, e)
    if len(ml) != n:
        return h.fail("multilabel vector has the wrong length")
    for i in range(n):
        if (ml[i] == 1) != (vc[i] in qc) or not (ml[i] == 0 or ml[i] == 1):
            return h.fail("multilabel_encoding is not the indicator of the vocabulary tags present")
    # prediction: score of each predicted vocabulary tag (one of them on repeats), 0 elsewhere
    ptags = [data.PredictedTag(tag=t, score=s) for t, s in zip(query, scores)]
    pe = enc.prediction_encoding(ptags, e)
    if len(pe) != n:
        return h.fail("prediction vector has the wrong length")
    for i in range(n):
        cands = [s for c, s in zip(qc, scores) if c == vc[i]]
        if not cands:
            if not (pe[i] == 0):
                return h.fail("prediction_encoding non-zero for an absent tag")
        else:
            if not any(_close(pe[i], s) for s in cands):
                return h.fail("prediction_encoding does not hold the predicted tag's score")
    # out-of-vocabulary tags never influence any result
    inq = [t for t, c in zip(query, qc) if c in vc]
    if enc.classification_encoding(inq, e) != want_cls:
        return h.fail("out-of-vocabulary tag changes classification_encoding")
    ml2 = enc.multilabel_encoding(inq, e)
    for i in range(n):
        if ml2[i] != ml[i]:
            return h.fail("out-of-vocabulary tag changes multilabel_encoding")
    oov = any(c not in vc for c in qc)
    rep = len(set(qc)) < len(qc)
    return h.done(hit=(want_cls is not None), miss=(want_cls is None and m > 0), oov=oov and want_cls is not None,
                  repeat=rep)


def _close(a, b):
    # stored as float32 by numpy; exact in the model
    if h.MODEL:
        return a == b
    return abs(float(a) - float(b)) <= 1e-7 * max(1.0, abs(float(b)))


VALUES = [0.0, -0.0, 1.0, 1, 0.5]


def _mk(cls_name, a, b, c, d):
    """an instance of one of the eight hashable classes from four atoms"""
    f = graph.Fixed(False)
    bld = graph.Builder()
    if cls_name == "Term":
        return data.Term(name=h.S(a, "n"), label=h.S(b, "l"), definition=h.S(c, "d"),
                         uri=h.S(d, "u") if d else None)
    if cls_name == "Tag":
        return data.Tag(term=data.Term(name=h.S(a, "n"), label=h.S(b, "l"), definition=h.S(0, "d")), value=h.S(c, "v"))
    if cls_name == "Feature":
        return data.Feature(term=data.Term(name=h.S(a, "n"), label=h.S(b, "l"), definition=h.S(0, "d")),
                            value=VALUES[c % len(VALUES)])
    rec = bld.recording(0, f)
    if cls_name == "Note":
        return data.Note(uuid=h.U(a), message=h.S(b, "m"), is_issue=bool(c % 2), created_on=h.DT(1 + d))
    se = data.SoundEvent(uuid=h.U(50 + a), geometry=data.TimeStamp(coordinates=float(b)), recording=rec)
    if cls_name == "SoundEvent":
        return se
    if cls_name == "SoundEventAnnotation":
        return data.SoundEventAnnotation(uuid=h.U(60 + c), sound_event=se, created_on=h.DT(1 + d))
    if cls_name == "SoundEventPrediction":
        return data.SoundEventPrediction(uuid=h.U(70 + c), sound_event=se, score=VALUES[d % len(VALUES)] / 1)
    if cls_name == "ClipPrediction":
        clip = data.Clip(uuid=h.U(80 + a), recording=rec, start_time=0.0, end_time=1.0 + b)
        return data.ClipPrediction(uuid=h.U(90 + c), clip=clip,
                                   tags=[data.PredictedTag(tag=bld.tag(1), score=0.5)] if d % 2 else [])
    raise KeyError(cls_name)


def ob_hash(a0: int, b0: int, c0: int, d0: int, a1: int, b1: int, c1: int, d1: int) -> bool:
    """
    post: _
    """
    cls_name = h.P("cls")
    dom = h.P("dom", [2, 2, 2, 2])
    try:
        x = [_pick(v, dom[i % 4]) for i, v in enumerate((a0, b0, c0, d0, a1, b1, c1, d1))]
    except graph.Vacuous:
        return True
    o1 = _mk(cls_name, *x[:4])
    o2 = _mk(cls_name, *x[4:])
    eq = o1 == o2
    if eq and hash(o1) != hash(o2):
        return h.fail("equal objects with different hashes")
    if eq and len({o1, o2}) != 1:
        return h.fail("equal objects are two set members")
    if not eq and (o1 in {o2: 1}):
        return h.fail("unequal object found as a dictionary key")
    same_hash = hash(o1) == hash(o2)
    return h.done(equal=eq, unequal_same_hash=(not eq and same_hash), unequal=(not eq))


def _hashed_key(obj):
    """what the class's own __hash__ feeds to the builtin hash(): the real __hash__ is run with the module-level
    name `hash` rebound to a recorder (hashing a symbolic float would realise it, i.e. sample)"""
    import sys

    mod = sys.modules[type(obj).__module__]
    rec = []
    had = "hash" in mod.__dict__
    old = mod.__dict__.get("hash")
    mod.hash = lambda t: (rec.append(t), 0)[1]
    try:
        obj.__hash__()
    finally:
        if had:
            mod.hash = old
        else:
            del mod.hash
    return rec[-1] if rec else None


def ob_hash_float(v1: float, v2: float, a0: int, a1: int) -> bool:
    """
    pre: -1e9 <= v1 <= 1e9 and -1e9 <= v2 <= 1e9
    post: _
    """
    # hash contract of the one hashable class with a float in its key, for EVERY pair of values
    try:
        x = [_pick(a0, 2), _pick(a1, 2)]
    except graph.Vacuous:
        return True

    def mk(a, v):
        return data.Feature(term=data.Term(name=h.S(a, "n"), label=h.S(a, "l"), definition=h.S(0, "d")), value=v)

    o1, o2 = mk(x[0], v1), mk(x[1], v2)
    eq = o1 == o2
    if h.MODEL:
        k1, k2 = _hashed_key(o1), _hashed_key(o2)
        if k1 is None or k2 is None or len(k1) != len(k2):
            return h.fail("__hash__ does not hash a key")
        same = True
        for p_, q_ in zip(k1, k2):
            same = same and (p_ == q_)
    else:
        same = hash(o1) == hash(o2)
    if eq and not same:
        return h.fail("equal objects with different hashes")
    return h.done(equal=eq, unequal=(not eq))


HASHABLE = ["Term", "Tag", "Feature", "Note", "SoundEvent", "SoundEventAnnotation", "SoundEventPrediction",
            "ClipPrediction"]


def plan():
    q = ("quick", "thorough")
    import itertools

    obs = []
    quick_vocabs = [[], [0], [2, 0], [0, 1], [4, 0], [1, 0, 5], [3, 4, 2], [5, 2, 1]]
    for vc in quick_vocabs:
        tw = ("miss",) if not vc else ("hit", "miss", "oov", "repeat")
        obs.append(Ob("encoder-vocab-%s" % ("".join(map(str, vc)) or "empty"), ob_encoder, "real", 900,
                      dict(codes=6, vocab=vc, maxq=2 if len(vc) != 2 else 3), q, twins=tw, twin_timeout=200))
        if len(vc) != 2:
            obs.append(Ob("encoder-vocab-%s-q3" % ("".join(map(str, vc)) or "empty"), ob_encoder, "real", 1800,
                          dict(codes=6, vocab=vc, maxq=3), ("thorough",), twins=("hit",) if vc else ("miss",),
                          twin_timeout=200))
    for k in (1, 2, 3):
        for vc in itertools.permutations(range(6), k):
            if list(vc) in quick_vocabs:
                continue
            obs.append(Ob("encoder-vocab-%s" % "".join(map(str, vc)), ob_encoder, "real", 900,
                          dict(codes=6, vocab=list(vc)), ("thorough",), twins=("hit",), twin_timeout=200))
    for cls in HASHABLE:
        tw = ("equal", "unequal")
        if cls in ("Term", "Tag", "Feature"):
            tw = ("equal", "unequal", "unequal_same_hash")
        dom = [2, 2, 5, 1] if cls == "Feature" else [2, 2, 2, 2]
        obs.append(Ob("hash-" + cls, ob_hash, "real", 1200, dict(cls=cls, dom=dom), q, twins=tw, twin_timeout=300))
        if cls == "Feature":
            obs.append(Ob("hash-float-Feature", ob_hash_float, "real", 600, dict(), q, twins=("equal", "unequal"),
                          twin_timeout=300))
        obs.append(Ob("hash3-" + cls, ob_hash, "real", 6000, dict(cls=cls, dom=[3, 3, 5 if cls == "Feature" else 3, 2]),
                      ("thorough",), twins=("equal",), twin_timeout=300))
    return obs


INFO = dict(
    functions=[
        "soundevent.evaluation.encoding: SimpleEncoder.__init__/encode/decode, create_tag_encoder, "
        "classification_encoding, multilabel_encoding, prediction_encoding",
        "__hash__ of data.Term, Tag, Feature, Note, SoundEvent, SoundEventAnnotation, SoundEventPrediction, "
        "ClipPrediction against structural equality",
    ],
    bounds="vocabularies of 0..3 pairwise distinct tags (8 of them quick, all 157 ordered ones thorough) and EVERY "
    "query list of 0..3 tags (repeats, out-of-vocabulary) drawn from 6 tag codes covering name x label x value combinations (same name different "
    "label and vice versa); predicted scores symbolic in [0,1]; hash contract: every pair of instances of each of "
    "the eight classes over 2^4 x 2^4 (quick) / (3*3*3*2)^2 (thorough) field-atom combinations (feature values from {0.0, -0.0, 1.0, 1, 0.5})",
    trusted_base=["models/pyd.py (equality = class + field dict + extras)", "models/npl.py (zeros, item assignment)",
                  "builtin hash of the concrete atoms (strings/ints/uuids)", "CrossHair 0.0.110 + z3"],
    outside=["float32 rounding of stored scores (compared up to 1e-7 in replay)", "larger vocabularies"],
)
