"""Shared harness helpers: build soundevent geometries of bounded shape from a
flat list of (symbolic) floats, and compute their expected extents
independently, straight from the coordinates."""

from __future__ import annotations

MAXF = 5000000

# (tag, variant) -> number of floats consumed
SHAPES = {
    ("TimeStamp", 0): 1,
    ("TimeInterval", 0): 2,
    ("Point", 0): 2,
    ("BoundingBox", 0): 4,
    ("LineString", 0): 4,  # 2 points
    ("LineString", 1): 6,  # 3 points
    ("Polygon", 0): 6,  # shell of 3
    ("Polygon", 1): 12,  # shell of 3 + hole of 3
    ("MultiPoint", 0): 2,
    ("MultiPoint", 1): 4,
    ("MultiLineString", 0): 4,
    ("MultiLineString", 1): 8,
    ("MultiPolygon", 0): 6,
    ("MultiPolygon", 1): 12,
}

TAGS = ["TimeStamp", "TimeInterval", "Point", "BoundingBox", "LineString", "Polygon", "MultiPoint",
        "MultiLineString", "MultiPolygon"]


def pairs(v):
    return [[v[i], v[i + 1]] for i in range(0, len(v), 2)]


def coords(tag, variant, v):
    """coordinate structure for (tag, variant) from floats v"""
    n = SHAPES[(tag, variant)]
    v = list(v[:n])
    if tag == "TimeStamp":
        return v[0]
    if tag in ("TimeInterval", "Point", "BoundingBox"):
        return v
    ps = pairs(v)
    if tag in ("LineString", "MultiPoint"):
        return ps
    if tag == "Polygon":
        return [ps[:3]] if variant == 0 else [ps[:3], ps[3:]]
    if tag == "MultiLineString":
        return [ps[:2]] if variant == 0 else [ps[:2], ps[2:]]
    if tag == "MultiPolygon":
        return [[ps[:3]]] if variant == 0 else [[ps[:3]], [ps[3:]]]
    raise KeyError(tag)


def tf_points(tag, variant, v):
    """(times, freqs-or-None) that determine the extent, per the statement:
    all coordinates; for a polygon the shell (holes lie inside it)."""
    n = SHAPES[(tag, variant)]
    v = list(v[:n])
    if tag == "TimeStamp":
        return [v[0]], None
    if tag == "TimeInterval":
        return [v[0], v[1]], None
    if tag == "BoundingBox":
        return [v[0], v[2]], [v[1], v[3]]
    ps = pairs(v)
    if tag == "Polygon":
        ps = ps[:3]
    return [p[0] for p in ps], [p[1] for p in ps]


from vf.sym import hi, lo  # noqa: E402  (non-forking min / max)


def extent(tag, variant, v):
    ts, fs = tf_points(tag, variant, v)
    if fs is None:
        return (lo(ts), 0, hi(ts), MAXF)
    return (lo(ts), lo(fs), hi(ts), hi(fs))


def hole_inside(v):
    """Polygon variant 1: hole coordinates inside the shell's bounding box
    (necessary for a valid polygon; GEOS takes bounds from the shell)."""
    ps = pairs(list(v[:12]))
    t0, t1 = lo([p[0] for p in ps[:3]]), hi([p[0] for p in ps[:3]])
    f0, f1 = lo([p[1] for p in ps[:3]]), hi([p[1] for p in ps[:3]])
    for p in ps[3:]:
        if not (t0 <= p[0] <= t1 and f0 <= p[1] <= f1):
            return False
    return True


def make(data, tag, variant, v):
    """the geometry, or None when the validators reject the coordinates"""
    try:
        return getattr(data, tag)(coordinates=coords(tag, variant, v))
    except ValueError:
        return None


def no_nan(v):
    for x in v:
        if x != x:
            return False
    return True


def all_finite(v):
    from vf import sym

    return sym.all_finite(v)


def used(tag, variant, v):
    return list(v[: SHAPES[(tag, variant)]])
