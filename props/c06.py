"""C06 — affinity is a symmetric intersection-over-union in [0, 1].
Real code: evaluation/affinity.py compute_affinity, compute_affinity_in_time,
_prepare_geometry; geometry/operations.py buffer_geometry dispatch +
buffer_timestamp, compute_bounds; conversion.py."""

from __future__ import annotations

from vf import h, sym
from vf.plan import Ob

h.setup(
    fakes=("pydantic", "shp"),
    modules=("soundevent.data", "soundevent.geometry", "soundevent.evaluation.affinity"),
    real_first=("numpy", "xarray", "rasterio.features", "scipy.sparse.csgraph", "matplotlib.pyplot"),
)

from soundevent import data  # noqa: E402
from soundevent.evaluation import affinity as aff  # noqa: E402

from props import geo  # noqa: E402


def _geom(tag, variant, v):
    return geo.make(data, tag, variant, v)


def _eq(a, b):
    """equality of two derived quantities: exact in the model (exact reals); up to rounding noise when a
    witness is replayed in doubles"""
    if h.MODEL:
        return a == b
    return abs(float(a) - float(b)) <= 1e-9 * max(1.0, abs(float(a)), abs(float(b)))


def _buffered_time_extent(tag, e, tb):
    """time extent after the preparation step: only a time stamp is widened"""
    if tag == "TimeStamp":
        return (sym.fmax(e[0] - tb, 0), e[2] + tb)
    return (e[0], e[2])


def _iou_1d(a, b):
    inter = sym.fmax(0, sym.fmin(a[1], b[1]) - sym.fmax(a[0], b[0]))
    union = (a[1] - a[0]) + (b[1] - b[0]) - inter
    return inter, union


def ob_time_pair(
    p0: float, p1: float, p2: float, p3: float, p4: float, p5: float,
    q0: float, q1: float, q2: float, q3: float, q4: float, q5: float,
    tb: float, fb: float, d: float,
) -> bool:
    """
    pre: 0 <= tb <= 1e6 and 0 <= fb <= 1e6 and 0 <= d <= 1e6
    pre: p0 <= 1e6 and p1 <= 5e6 and p2 <= 1e6 and p3 <= 5e6 and p4 <= 1e6 and p5 <= 5e6
    pre: q0 <= 1e6 and q1 <= 5e6 and q2 <= 1e6 and q3 <= 5e6 and q4 <= 1e6 and q5 <= 5e6
    post: _
    """
    t1, v1, t2, v2 = h.P("t1"), h.P("v1"), h.P("t2"), h.P("v2")
    P = [p0, p1, p2, p3, p4, p5]
    Q = [q0, q1, q2, q3, q4, q5]
    if ("TimeStamp" in (t1, t2)) and not tb > 0:
        return True  # buffers strictly positive when a 0-dimensional geometry is involved
    g1 = _geom(t1, v1, P)
    g2 = _geom(t2, v2, Q)
    if g1 is None or g2 is None:
        return True
    a = _buffered_time_extent(t1, geo.extent(t1, v1, P), tb)
    b = _buffered_time_extent(t2, geo.extent(t2, v2, Q), tb)
    inter, union = _iou_1d(a, b)
    got = aff.compute_affinity(g1, g2, time_buffer=tb, freq_buffer=fb)
    rev = aff.compute_affinity(g2, g1, time_buffer=tb, freq_buffer=fb)
    if not _eq(got, rev):
        return h.fail("not symmetric")
    if not (0 <= got <= 1):
        return h.fail("outside [0, 1]")
    if union == 0:
        if not got == 0:
            return h.fail("zero union does not give 0")
        return h.done(zero_union=True, disjoint=False, partial=False)
    if not _eq(got * union, inter):
        return h.fail("differs from the IoU of the buffered time extents")
    disjoint = sym.bor(a[1] < b[0], b[1] < a[0])
    if disjoint and not got == 0:
        return h.fail("disjoint in time but affinity > 0")
    # common shift by d: unchanged while neither buffered start is clamped at 0
    if h.P("shift"):
        Ps = _shift(t1, v1, P, d)
        Qs = _shift(t2, v2, Q, d)
        g1s = _geom(t1, v1, Ps)
        g2s = _geom(t2, v2, Qs)
        if g1s is None or g2s is None:
            return h.fail("shifted geometry rejected")
        unclamped = sym.band(geo.extent(t1, v1, P)[0] - tb >= 0 if t1 == "TimeStamp" else True,
                             geo.extent(t2, v2, Q)[0] - tb >= 0 if t2 == "TimeStamp" else True)
        if unclamped:
            gs = aff.compute_affinity(g1s, g2s, time_buffer=tb, freq_buffer=fb)
            if not _eq(gs * union, inter):
                return h.fail("not invariant under a common time shift")
    return h.done(zero_union=False, disjoint=disjoint, partial=sym.band(got > 0, got < 1))


def _shift(tag, variant, v, d):
    n = geo.SHAPES[(tag, variant)]
    v = list(v[:n])
    if tag in ("TimeStamp", "TimeInterval"):
        return [x + d for x in v]
    return [x + d if i % 2 == 0 else x for i, x in enumerate(v)]


def ob_self(p0: float, p1: float, p2: float, p3: float, tb: float, fb: float) -> bool:
    """
    pre: 0 <= tb <= 1e6 and 0 <= fb <= 1e6
    pre: p0 <= 1e6 and p1 <= 5e6 and p2 <= 1e6 and p3 <= 5e6
    post: _
    """
    tag = h.P("t1")
    P = [p0, p1, p2, p3]
    if tag == "TimeStamp" and not tb > 0:
        return True
    g = _geom(tag, 0, P)
    if g is None:
        return True
    e = geo.extent(tag, 0, P)
    nonzero = (e[2] > e[0]) if tag != "TimeStamp" else True
    if tag == "BoundingBox":
        nonzero = sym.band(e[2] > e[0], e[3] > e[1])
    got = aff.compute_affinity(g, g, time_buffer=tb, freq_buffer=fb)
    if nonzero:
        if not _eq(got, 1):
            return h.fail("self-affinity of a geometry of non-zero extent is not 1")
        return h.done(nonzero=True, degenerate=False)
    if not (0 <= got <= 1):
        return h.fail("outside [0, 1]")
    return h.done(nonzero=False, degenerate=True)


def ob_box_pair(
    p0: float, p1: float, p2: float, p3: float, q0: float, q1: float, q2: float, q3: float,
    tb: float, fb: float, d: float,
) -> bool:
    """
    pre: 0 <= tb <= 1e6 and 0 <= fb <= 1e6 and 0 <= d <= 1e6
    pre: p0 <= 1e6 and p1 <= 5e6 and p2 <= 1e6 and p3 <= 5e6
    pre: q0 <= 1e6 and q1 <= 5e6 and q2 <= 1e6 and q3 <= 5e6
    post: _
    """
    P = [p0, p1, p2, p3]
    Q = [q0, q1, q2, q3]
    ff = h.P("fixed_freq")
    if ff:
        # concrete frequency bands (times stay symbolic): the areas are then linear in the symbolic inputs,
        # which keeps z3's nonlinear reasoning predictable in the quick tier
        P = [p0, ff[0], p2, ff[1]]
        Q = [q0, ff[2], q2, ff[3]]
        p1, p3, q1, q3 = ff
    if not (p0 <= p2 and p1 <= p3 and q0 <= q2 and q1 <= q3):
        return True  # boxes given in normal form (normalisation itself: C03)
    g1 = _geom("BoundingBox", 0, P)
    g2 = _geom("BoundingBox", 0, Q)
    if g1 is None or g2 is None:
        return True
    a = geo.extent("BoundingBox", 0, P)
    b = geo.extent("BoundingBox", 0, Q)
    ix = sym.fmax(0, sym.fmin(a[2], b[2]) - sym.fmax(a[0], b[0]))
    iy = sym.fmax(0, sym.fmin(a[3], b[3]) - sym.fmax(a[1], b[1]))
    inter = ix * iy
    union = (a[2] - a[0]) * (a[3] - a[1]) + (b[2] - b[0]) * (b[3] - b[1]) - inter
    got = aff.compute_affinity(g1, g2, time_buffer=tb, freq_buffer=fb)
    what = h.P("what")
    if what == "symmetric":
        rev = aff.compute_affinity(g2, g1, time_buffer=tb, freq_buffer=fb)
        if not _eq(got, rev):
            return h.fail("not symmetric")
        return h.done(any=True)
    if what == "iou":
        if union == 0:
            if not got == 0:
                return h.fail("zero union does not give 0")
            return h.done(any=False)
        if not _eq(got * union, inter):
            return h.fail("differs from the area intersection-over-union")
        disjoint = sym.bor(a[2] < b[0], b[2] < a[0])
        if disjoint and not got == 0:
            return h.fail("disjoint in time but affinity > 0")
        return h.done(any=sym.band(got > 0, got < 1))
    if what == "range":
        if not (0 <= got <= 1):
            return h.fail("outside [0, 1]")
        return h.done(any=True)
    if what == "shift":
        g1s = _geom("BoundingBox", 0, _shift("BoundingBox", 0, P, d))
        g2s = _geom("BoundingBox", 0, _shift("BoundingBox", 0, Q, d))
        if g1s is None or g2s is None:
            return h.fail("shifted geometry rejected")
        gs = aff.compute_affinity(g1s, g2s, time_buffer=tb, freq_buffer=fb)
        if union == 0:
            return h.done(any=False)
        if not _eq(gs * union, inter):
            return h.fail("not invariant under a common time shift")
        return h.done(any=True)
    raise KeyError(what)


TIME = [("TimeStamp", 0), ("TimeInterval", 0)]
OTHERS = [("TimeStamp", 0), ("TimeInterval", 0), ("BoundingBox", 0), ("Polygon", 0), ("MultiPolygon", 0)]


def ob_time_ieee(a0: float, a1: float, b0: float, b1: float, tb: float) -> bool:
    """
    pre: 0 <= a0 <= 1e6 and 0 <= a1 <= 1e6 and 0 <= b0 <= 1e6 and 0 <= b1 <= 1e6 and 0 <= tb <= 1e3
    post: _
    """
    # replay target of the IEEE search: the affinity of two time geometries, in doubles, lies in [0, 1] and does
    # not depend on the order of the arguments
    k1, k2 = h.P("k1"), h.P("k2")

    def mk(kind, x, y):
        if kind == "TimeStamp":
            return data.TimeStamp(coordinates=x)
        if not x <= y:
            return None
        return data.TimeInterval(coordinates=[x, y])

    g1, g2 = mk(k1, a0, a1), mk(k2, b0, b1)
    if g1 is None or g2 is None:
        return True
    r = aff.compute_affinity(g1, g2, time_buffer=tb, freq_buffer=100)
    r2 = aff.compute_affinity(g2, g1, time_buffer=tb, freq_buffer=100)
    if not (0 <= r <= 1):
        return h.fail("affinity outside [0, 1] in doubles")
    if r != r2:
        return h.fail("affinity depends on the order of the arguments in doubles")
    return h.done(any=True)


def kx_time_iou(params, timeout):
    """IEEE-754 decision for the time-only affinity: the real compute_affinity -> _prepare_geometry ->
    buffer_geometry -> buffer_timestamp -> compute_affinity_in_time chain is run over z3 Float64 terms (geometries
    are tokens carrying their coordinates; compute_bounds is its contract for time geometries: the coordinates
    themselves, no arithmetic); per path the solvers are asked for doubles making the result leave [0, 1], be NaN, or
    differ from the result with the arguments swapped."""
    import time
    import types

    import z3

    from soundevent.geometry import operations as ops
    from vf import kx

    k1, k2 = params["k1"], params["k2"]
    a0, a1, b0, b1 = kx.var("a0", 1.0), kx.var("a1", 3.0), kx.var("b0", 2.0), kx.var("b1", 4.5)
    tb = kx.var("tb", 0.25)
    base = [kx.finite_between(v, 0.0, 1000000.0) for v in (a0, a1, b0, b1)] + [kx.finite_between(tb, 0.0, 1000.0)]
    base += [z3.Not(z3.fpIsNegative(v.e)) for v in (a0, a1, b0, b1, tb)]  # -0.0 outside (ties are bit-identity)
    if k1 == "TimeInterval":
        base.append(z3.fpLEQ(a0.e, a1.e))
    if k2 == "TimeInterval":
        base.append(z3.fpLEQ(b0.e, b1.e))

    class Tok:
        def __init__(self, type, coordinates):
            self.type, self.coordinates = type, coordinates

    def interval(coordinates=None):
        s_, e_ = coordinates
        if s_ > e_:
            raise ValueError("The start time must be less than or equal to the end time")  # the model's validator
        return Tok("TimeInterval", [s_, e_])

    def bounds(g):
        if g.type == "TimeInterval":
            return (g.coordinates[0], 0, g.coordinates[1], 5000000)
        raise kx.SymbolicBranch("bounds of " + g.type)

    fake_data = types.SimpleNamespace(TimeInterval=interval, TimeStamp=types.SimpleNamespace(geom_type=lambda: "TimeStamp"))

    def mk(kind, x, y):
        return Tok("TimeStamp", x) if kind == "TimeStamp" else Tok("TimeInterval", [x, y])

    def run():
        g1, g2 = mk(k1, a0, a1), mk(k2, b0, b1)
        r = aff.compute_affinity(g1, g2, time_buffer=tb, freq_buffer=100)
        r2 = aff.compute_affinity(g2, g1, time_buffer=tb, freq_buffer=100)
        return (r, r2)

    saved = (ops.data, ops.__dict__.get("max"), aff.compute_bounds, aff.__dict__.get("max"), aff.__dict__.get("min"))
    ops.data, ops.max = fake_data, kx.kx_max
    aff.compute_bounds, aff.max, aff.min = bounds, kx.kx_max, kx.kx_min
    queries, spent, unknown, npaths, useful = 0, 0.0, False, 0, 0
    found = None
    t0 = time.time()
    lem = kx.div_lemma(min(300.0, timeout / 3))
    lemma_ok = lem["status"] == "unsat"
    queries += 1
    spent += lem["solve_s"]
    try:
        for pc, res in kx.explore_iter(run, max_paths=400, base=base, prune_timeout_ms=2000, deadline=t0 + timeout):
            npaths += 1
            if isinstance(res, Exception):
                unknown = True
                continue
            useful += 1
            r, r2 = res
            # one list of alternative violations per path; each is posed as its own query so that the division
            # circuit is only encoded when the quotient lemma does not apply
            alts = []
            seen_terms = set()
            for x in (r, r2):
                if isinstance(x, kx.ZF):
                    if x.e.get_id() in seen_terms:
                        continue
                    seen_terms.add(x.e.get_id())
                    direct = z3.Or(z3.fpGT(x.e, z3.FPVal(1.0, kx.F64)), z3.fpLT(x.e, z3.FPVal(0.0, kx.F64)),
                                   z3.fpIsNaN(x.e))
                    qf = kx.quotient_facts(x) if lemma_ok else None
                    if qf:
                        # x = n/d: under n >= 0, d > 0 (finite) "x > 1" is "n > d" and x is neither negative nor NaN
                        alts.append(z3.And(qf[0], qf[1]))
                        alts.append(z3.And(z3.Not(qf[0]), direct))
                    else:
                        alts.append(direct)
                elif not 0 <= x <= 1:
                    alts.append(z3.BoolVal(True))
            if params.get("witness"):
                # reachability witness (vacuity guard): an affinity strictly between 1/2 and 1 must be found
                alts = [z3.And(z3.fpGT(x.e, z3.FPVal(0.5, kx.F64)), z3.fpLT(x.e, z3.FPVal(1.0, kx.F64)))
                        for x in (r,) if isinstance(x, kx.ZF)]
            elif isinstance(r, kx.ZF) and isinstance(r2, kx.ZF) and r.e.eq(r2.e):
                pass  # the same term both ways round (NaN is covered above)
            elif isinstance(r, kx.ZF) or isinstance(r2, kx.ZF):
                alts.append(z3.Not(z3.fpEQ(kx.lift(r), kx.lift(r2))))
            elif r != r2:
                alts.append(z3.BoolVal(True))
            rr = {"status": "unsat"}
            for alt in alts:
                left = timeout - (time.time() - t0)
                if left < 5:
                    unknown = True
                    break
                cons, _ties = kx.tie_normalize(base + pc + [alt], (a0, a1, b0, b1))
                if any(z3.is_false(c) for c in cons):
                    continue  # contradiction already syntactic
                rr = kx.solve(cons, max(10.0, left / 3), {"a0": a0, "a1": a1, "b0": b0, "b1": b1, "tb": tb})
                queries += 1
                spent += rr["solve_s"]
                if rr["status"] == "sat":
                    for v_, u_ in _ties:  # tied inputs were merged: give them their representative's value
                        rr["model"][v_] = rr["model"][u_]
                    break
                if rr["status"] != "unsat":
                    unknown = True
            if rr["status"] == "sat":
                found = rr["model"]
                break
            if rr["status"] != "unsat":
                unknown = True
    finally:
        ops.data, aff.compute_bounds = saved[0], saved[2]
        for mod, name, old in ((ops, "max", saved[1]), (aff, "max", saved[3]), (aff, "min", saved[4])):
            if old is None:
                delattr(mod, name)
            else:
                setattr(mod, name, old)
    if params.get("witness"):
        # vacuity guard of the search: the witness must exist and the REAL code must agree with the encoding on it
        if found is None:
            return {"status": "error", "message": "reachability witness (affinity in (1/2, 1)) not found", "queries": queries}
        m = found

        def mk(kind, x, y):
            return data.TimeStamp(coordinates=x) if kind == "TimeStamp" else data.TimeInterval(coordinates=[x, y])

        real = aff.compute_affinity(mk(k1, m["a0"], m["a1"]), mk(k2, m["b0"], m["b1"]), time_buffer=m["tb"], freq_buffer=100)
        ok = 0.5 < real < 1
        return {"status": "confirmed" if ok else "error", "queries": queries, "paths": npaths, "solve_s": round(spent, 1),
                "message": "witness %r: the real compute_affinity returns %r" % (m, real)}
    if found is not None:
        m = found
        return {"status": "refuted", "backend": kx.LAST["backend"], "replay_fn": "ob_time_ieee",
                "args": [[m["a0"], m["a1"], m["b0"], m["b1"], m["tb"]], {}], "queries": queries, "paths": npaths,
                "solve_s": round(spent, 1), "clause": "affinity outside [0, 1] in doubles",
                "message": "solver model: affinity of %s(%r, %r) and %s(%r, %r), time buffer %r, leaves [0, 1] or is "
                "not symmetric in doubles" % (k1, m["a0"], m["a1"], k2, m["b0"], m["b1"], m["tb"])}
    out = {"queries": queries, "paths": npaths, "solve_s": round(spent, 1), "unexplored": kx.EXHAUSTED["left"],
           "division_lemma": "%s by %s in %.1fs" % (lem["status"], lem.get("backend"), lem["solve_s"])}
    if not useful:
        out.update(status="error", message="vacuous: no explored path returned an affinity")
    elif unknown or kx.EXHAUSTED["left"]:
        out.update(status="searched", message="no IEEE counterexample found within the budget (solver unknown on some "
                   "path, or paths left unexplored)")
    else:
        out.update(status="confirmed", message="every explored path: result in [0,1], not NaN, symmetric (unsat)")
    return out


SELF_INPUTS = [
    ("Point", [3.807579170447651, 509.872010869577]),  # 1.0000000000000007 before 291f43f
    ("LineString", [[7.381607955203364, 264.8903561473315], [7.741041664929092, 1051.2438809880448]]),
    ("Polygon", [[[7.023426923625316, 1575.0546039772123], [7.200582331752644, 1631.2426639965781],
                  [8.018024913328127, 1885.0098934396124], [7.023426923625316, 1575.0546039772123]]]),
]


def ob_self_geos(i: int) -> bool:
    """
    pre: 0 <= i < 3
    post: _
    """
    # replay target of the recorded inputs: self-affinity through real GEOS stays in [0, 1]
    kind, coords = SELF_INPUTS[i]
    g = getattr(data, kind)(coordinates=coords)
    a = aff.compute_affinity(g, g)
    if not (0 <= a <= 1):
        return h.fail("affinity outside [0, 1] in doubles")
    return h.done(any=True)


def probe_self_geos(params, timeout):
    """Re-evaluates, on the real code with real GEOS, the recorded inputs of the repaired finding
    C06-geos-affinity-above-one (no solver involved: GEOS area arithmetic is outside the encodable part)."""
    h.PARAMS.clear()
    for i in range(len(SELF_INPUTS)):
        if not ob_self_geos(i):
            return {"status": "refuted", "replay_fn": "ob_self_geos", "args": [[i], {}], "queries": 0,
                    "message": "compute_affinity(g, g) for the recorded %s is outside [0, 1]" % SELF_INPUTS[i][0],
                    "clause": "affinity outside [0, 1] in doubles"}
    return {"status": "confirmed", "queries": 0, "note": "all recorded inputs give an affinity in [0, 1]"}


def plan():
    q = ("quick", "thorough")
    obs = []
    seen = set()
    for a in TIME:
        for b in OTHERS:
            for (x, y) in ((a, b), (b, a)):
                if (x, y) in seen:
                    continue
                seen.add((x, y))
                quick = x[0] in ("TimeStamp", "TimeInterval") and y[0] in ("TimeStamp", "TimeInterval", "BoundingBox")
                nm = "%s-%s" % (x[0], y[0])
                tw = ("disjoint", "partial") if not (x[0] == y[0] == "TimeStamp") else ("disjoint", "partial")
                obs.append(Ob("time-" + nm, ob_time_pair, "real", 600,
                              dict(t1=x[0], v1=x[1], t2=y[0], v2=y[1], shift=False), q if quick else ("thorough",),
                              twins=tw))
                obs.append(Ob("time-shift-" + nm, ob_time_pair, "real", 900,
                              dict(t1=x[0], v1=x[1], t2=y[0], v2=y[1], shift=True), ("thorough",), twins=("partial",)))
    for tag in ("TimeStamp", "TimeInterval", "BoundingBox"):
        obs.append(Ob("self-" + tag, ob_self, "real", 300, dict(t1=tag), q,
                      twins=("nonzero",) if tag == "TimeStamp" else ("nonzero", "degenerate")))
    bands = [("overlapping-bands", [100.0, 300.0, 200.0, 500.0]), ("disjoint-bands", [100.0, 200.0, 300.0, 500.0]),
             ("nested-bands", [100.0, 500.0, 200.0, 300.0]), ("touching-bands", [100.0, 200.0, 200.0, 400.0]),
             ("equal-bands", [0.0, 5000000.0, 0.0, 5000000.0]), ("degenerate-band", [100.0, 100.0, 50.0, 300.0]),
             ("reversed-order-bands", [400.0, 900.0, 100.0, 500.0])]
    for what in ("symmetric", "iou", "range", "shift"):
        for name, ff in bands:
            quick = name in ("overlapping-bands", "disjoint-bands") and what in ("symmetric", "iou", "range")
            no_overlap = name in ("disjoint-bands", "touching-bands", "degenerate-band")
            obs.append(Ob("box-box-%s-%s" % (what, name), ob_box_pair, "real", 900, dict(what=what, fixed_freq=ff),
                          q if quick else ("thorough",),
                          twins=() if (no_overlap and what in ("iou", "shift")) else ("any",), twin_timeout=400))
    for (k1, k2) in (("TimeInterval", "TimeInterval"), ("TimeStamp", "TimeInterval"), ("TimeStamp", "TimeStamp")):
        obs.append(Ob("ieee-time-%s-%s" % (k1, k2), kx_time_iou, "kx", 900, dict(k1=k1, k2=k2), ("thorough",),
                      kind="py"))
    obs.append(Ob("geos-self-affinity-recorded-inputs", probe_self_geos, "kx", 60, dict(), q, kind="py"))
    obs.append(Ob("ieee-time-witness", kx_time_iou, "kx", 600, dict(k1="TimeStamp", k2="TimeInterval", witness=True),
                  ("thorough",), kind="py"))
    return obs


INFO = dict(
    functions=[
        "soundevent.evaluation.affinity: compute_affinity, compute_affinity_in_time, _prepare_geometry",
        "soundevent.geometry.operations: buffer_geometry, buffer_timestamp, compute_bounds",
        "soundevent.geometry.conversion: geometry_to_shapely (TimeStamp, TimeInterval, BoundingBox, Polygon, MultiPolygon)",
    ],
    bounds="17 of the 81 ordered type pairs: {TimeStamp, TimeInterval} x {TimeStamp, TimeInterval, BoundingBox, "
    "Polygon(3 pts), MultiPolygon(1x3 pts)} in both orders and BoundingBox x BoundingBox (symbolic times with seven "
    "concrete frequency-band configurations: overlapping, disjoint, nested, touching, equal, degenerate, reversed "
    "order — fully symbolic boxes make z3's nonlinear solver time out unpredictably and are not part of the check); times <= 1e6, "
    "frequencies <= 5e6, buffers <= 1e6; exact real arithmetic (z3 NRA)",
    trusted_base=["models/pyd.py", "models/shp.py (bounds; area/intersection of axis-aligned rectangles)",
                  "CrossHair 0.0.110 + z3 (Real)"],
    outside=[
        "IEEE-754 rounding of the ratio: decided over the reals only; for the time-only pairs the thorough tier adds "
        "a refutation search over the real code run on Float64 terms (ieee-time-*: z3+cvc5, quotient lemma "
        "fl(n/d) > 1 <=> n > d discharged at run time; tie, containment and disjoint paths are refuted, the "
        "partial-overlap paths end without verdict) — 'never more than 1' in doubles is NOT decided",
        "the 64 type pairs that need GEOS buffer/intersection (Point, LineString, MultiPoint, MultiLineString "
        "anywhere; Polygon/MultiPolygon against non-time types); ratios such as 1.0000000000000007 arose there "
        "(repaired by 291f43f; three recorded inputs are re-evaluated on the real code by "
        "geos-self-affinity-recorded-inputs) and are not reachable by solver queries",
    ],
)
