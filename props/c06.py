"""C06 — affinity is a symmetric intersection-over-union in [0, 1].
Real code: evaluation/affinity.py compute_affinity, compute_affinity_in_time,
_prepare_geometry; geometry/operations.py buffer_geometry dispatch +
buffer_timestamp, compute_bounds; conversion.py."""

from __future__ import annotations

from vf import h, sym
from vf.plan import Ob

h.setup(
    fakes=("pydantic", "shp"),
    modules=("soundevent.data", "soundevent.geometry", "soundevent.evaluation.affinity"),
    real_first=("numpy", "xarray", "rasterio.features", "scipy.sparse.csgraph", "matplotlib.pyplot"),
)

from soundevent import data  # noqa: E402
from soundevent.evaluation import affinity as aff  # noqa: E402

from props import geo  # noqa: E402


def _geom(tag, variant, v):
    return geo.make(data, tag, variant, v)


def _eq(a, b):
    """equality of two derived quantities: exact in the model (exact reals); up to rounding noise when a
    witness is replayed in doubles"""
    if h.MODEL:
        return a == b
    return abs(float(a) - float(b)) <= 1e-9 * max(1.0, abs(float(a)), abs(float(b)))


def _buffered_time_extent(tag, e, tb):
    """time extent after the preparation step: only a time stamp is widened"""
    if tag == "TimeStamp":
        return (sym.fmax(e[0] - tb, 0), e[2] + tb)
    return (e[0], e[2])


def _iou_1d(a, b):
    inter = sym.fmax(0, sym.fmin(a[1], b[1]) - sym.fmax(a[0], b[0]))
    union = (a[1] - a[0]) + (b[1] - b[0]) - inter
    return inter, union


def ob_time_pair(
    p0: float, p1: float, p2: float, p3: float, p4: float, p5: float,
    q0: float, q1: float, q2: float, q3: float, q4: float, q5: float,
    tb: float, fb: float, d: float,
) -> bool:
    """
    pre: 0 <= tb <= 1e6 and 0 <= fb <= 1e6 and 0 <= d <= 1e6
    pre: p0 <= 1e6 and p1 <= 5e6 and p2 <= 1e6 and p3 <= 5e6 and p4 <= 1e6 and p5 <= 5e6
    pre: q0 <= 1e6 and q1 <= 5e6 and q2 <= 1e6 and q3 <= 5e6 and q4 <= 1e6 and q5 <= 5e6
    post: _
    """
    t1, v1, t2, v2 = h.P("t1"), h.P("v1"), h.P("t2"), h.P("v2")
    P = [p0, p1, p2, p3, p4, p5]
    Q = [q0, q1, q2, q3, q4, q5]
    if ("TimeStamp" in (t1, t2)) and not tb > 0:
        return True  # buffers strictly positive when a 0-dimensional geometry is involved
    g1 = _geom(t1, v1, P)
    g2 = _geom(t2, v2, Q)
    if g1 is None or g2 is None:
        return True
    a = _buffered_time_extent(t1, geo.extent(t1, v1, P), tb)
    b = _buffered_time_extent(t2, geo.extent(t2, v2, Q), tb)
    inter, union = _iou_1d(a, b)
    got = aff.compute_affinity(g1, g2, time_buffer=tb, freq_buffer=fb)
    rev = aff.compute_affinity(g2, g1, time_buffer=tb, freq_buffer=fb)
    if not _eq(got, rev):
        return h.fail("not symmetric")
    if not (0 <= got <= 1):
        return h.fail("outside [0, 1]")
    if union == 0:
        if not got == 0:
            return h.fail("zero union does not give 0")
        return h.done(zero_union=True, disjoint=False, partial=False)
    if not _eq(got * union, inter):
        return h.fail("differs from the IoU of the buffered time extents")
    disjoint = sym.bor(a[1] < b[0], b[1] < a[0])
    if disjoint and not got == 0:
        return h.fail("disjoint in time but affinity > 0")
    # common shift by d: unchanged while neither buffered start is clamped at 0
    if h.P("shift"):
        Ps = _shift(t1, v1, P, d)
        Qs = _shift(t2, v2, Q, d)
        g1s = _geom(t1, v1, Ps)
        g2s = _geom(t2, v2, Qs)
        if g1s is None or g2s is None:
            return h.fail("shifted geometry rejected")
        unclamped = sym.band(geo.extent(t1, v1, P)[0] - tb >= 0 if t1 == "TimeStamp" else True,
                             geo.extent(t2, v2, Q)[0] - tb >= 0 if t2 == "TimeStamp" else True)
        if unclamped:
            gs = aff.compute_affinity(g1s, g2s, time_buffer=tb, freq_buffer=fb)
            if not _eq(gs * union, inter):
                return h.fail("not invariant under a common time shift")
    return h.done(zero_union=False, disjoint=disjoint, partial=sym.band(got > 0, got < 1))


def _shift(tag, variant, v, d):
    n = geo.SHAPES[(tag, variant)]
    v = list(v[:n])
    if tag in ("TimeStamp", "TimeInterval"):
        return [x + d for x in v]
    return [x + d if i % 2 == 0 else x for i, x in enumerate(v)]


def ob_self(p0: float, p1: float, p2: float, p3: float, tb: float, fb: float) -> bool:
    """
    pre: 0 <= tb <= 1e6 and 0 <= fb <= 1e6
    pre: p0 <= 1e6 and p1 <= 5e6 and p2 <= 1e6 and p3 <= 5e6
    post: _
    """
    tag = h.P("t1")
    P = [p0, p1, p2, p3]
    if tag == "TimeStamp" and not tb > 0:
        return True
    g = _geom(tag, 0, P)
    if g is None:
        return True
    e = geo.extent(tag, 0, P)
    nonzero = (e[2] > e[0]) if tag != "TimeStamp" else True
    if tag == "BoundingBox":
        nonzero = sym.band(e[2] > e[0], e[3] > e[1])
    got = aff.compute_affinity(g, g, time_buffer=tb, freq_buffer=fb)
    if nonzero:
        if not _eq(got, 1):
            return h.fail("self-affinity of a geometry of non-zero extent is not 1")
        return h.done(nonzero=True, degenerate=False)
    if not (0 <= got <= 1):
        return h.fail("outside [0, 1]")
    return h.done(nonzero=False, degenerate=True)


def ob_box_pair(
    p0: float, p1: float, p2: float, p3: float, q0: float, q1: float, q2: float, q3: float,
    tb: float, fb: float, d: float,
) -> bool:
    """
    pre: 0 <= tb <= 1e6 and 0 <= fb <= 1e6 and 0 <= d <= 1e6
    pre: p0 <= 1e6 and p1 <= 5e6 and p2 <= 1e6 and p3 <= 5e6
    pre: q0 <= 1e6 and q1 <= 5e6 and q2 <= 1e6 and q3 <= 5e6
    post: _
    """
    P = [p0, p1, p2, p3]
    Q = [q0, q1, q2, q3]
    ff = h.P("fixed_freq")
    if ff:
        # concrete frequency bands (times stay symbolic): the areas are then linear in the symbolic inputs,
        # which keeps z3's nonlinear reasoning predictable in the quick tier
        P = [p0, ff[0], p2, ff[1]]
        Q = [q0, ff[2], q2, ff[3]]
        p1, p3, q1, q3 = ff
    if not (p0 <= p2 and p1 <= p3 and q0 <= q2 and q1 <= q3):
        return True  # boxes given in normal form (normalisation itself: C03)
    g1 = _geom("BoundingBox", 0, P)
    g2 = _geom("BoundingBox", 0, Q)
    if g1 is None or g2 is None:
        return True
    a = geo.extent("BoundingBox", 0, P)
    b = geo.extent("BoundingBox", 0, Q)
    ix = sym.fmax(0, sym.fmin(a[2], b[2]) - sym.fmax(a[0], b[0]))
    iy = sym.fmax(0, sym.fmin(a[3], b[3]) - sym.fmax(a[1], b[1]))
    inter = ix * iy
    union = (a[2] - a[0]) * (a[3] - a[1]) + (b[2] - b[0]) * (b[3] - b[1]) - inter
    got = aff.compute_affinity(g1, g2, time_buffer=tb, freq_buffer=fb)
    what = h.P("what")
    if what == "symmetric":
        rev = aff.compute_affinity(g2, g1, time_buffer=tb, freq_buffer=fb)
        if not _eq(got, rev):
            return h.fail("not symmetric")
        return h.done(any=True)
    if what == "iou":
        if union == 0:
            if not got == 0:
                return h.fail("zero union does not give 0")
            return h.done(any=False)
        if not _eq(got * union, inter):
            return h.fail("differs from the area intersection-over-union")
        disjoint = sym.bor(a[2] < b[0], b[2] < a[0])
        if disjoint and not got == 0:
            return h.fail("disjoint in time but affinity > 0")
        return h.done(any=sym.band(got > 0, got < 1))
    if what == "range":
        if not (0 <= got <= 1):
            return h.fail("outside [0, 1]")
        return h.done(any=True)
    if what == "shift":
        g1s = _geom("BoundingBox", 0, _shift("BoundingBox", 0, P, d))
        g2s = _geom("BoundingBox", 0, _shift("BoundingBox", 0, Q, d))
        if g1s is None or g2s is None:
            return h.fail("shifted geometry rejected")
        gs = aff.compute_affinity(g1s, g2s, time_buffer=tb, freq_buffer=fb)
        if union == 0:
            return h.done(any=False)
        if not _eq(gs * union, inter):
            return h.fail("not invariant under a common time shift")
        return h.done(any=True)
    raise KeyError(what)


TIME = [("TimeStamp", 0), ("TimeInterval", 0)]
OTHERS = [("TimeStamp", 0), ("TimeInterval", 0), ("BoundingBox", 0), ("Polygon", 0), ("MultiPolygon", 0)]


def plan():
    q = ("quick", "thorough")
    obs = []
    seen = set()
    for a in TIME:
        for b in OTHERS:
            for (x, y) in ((a, b), (b, a)):
                if (x, y) in seen:
                    continue
                seen.add((x, y))
                quick = x[0] in ("TimeStamp", "TimeInterval") and y[0] in ("TimeStamp", "TimeInterval", "BoundingBox")
                nm = "%s-%s" % (x[0], y[0])
                tw = ("disjoint", "partial") if not (x[0] == y[0] == "TimeStamp") else ("disjoint", "partial")
                obs.append(Ob("time-" + nm, ob_time_pair, "real", 600,
                              dict(t1=x[0], v1=x[1], t2=y[0], v2=y[1], shift=False), q if quick else ("thorough",),
                              twins=tw))
                obs.append(Ob("time-shift-" + nm, ob_time_pair, "real", 900,
                              dict(t1=x[0], v1=x[1], t2=y[0], v2=y[1], shift=True), ("thorough",), twins=("partial",)))
    for tag in ("TimeStamp", "TimeInterval", "BoundingBox"):
        obs.append(Ob("self-" + tag, ob_self, "real", 300, dict(t1=tag), q,
                      twins=("nonzero",) if tag == "TimeStamp" else ("nonzero", "degenerate")))
    bands = [("overlapping-bands", [100.0, 300.0, 200.0, 500.0]), ("disjoint-bands", [100.0, 200.0, 300.0, 500.0]),
             ("nested-bands", [100.0, 500.0, 200.0, 300.0]), ("touching-bands", [100.0, 200.0, 200.0, 400.0]),
             ("equal-bands", [0.0, 5000000.0, 0.0, 5000000.0]), ("degenerate-band", [100.0, 100.0, 50.0, 300.0]),
             ("reversed-order-bands", [400.0, 900.0, 100.0, 500.0])]
    for what in ("symmetric", "iou", "range", "shift"):
        for name, ff in bands:
            quick = name in ("overlapping-bands", "disjoint-bands") and what in ("symmetric", "iou", "range")
            no_overlap = name in ("disjoint-bands", "touching-bands", "degenerate-band")
            obs.append(Ob("box-box-%s-%s" % (what, name), ob_box_pair, "real", 900, dict(what=what, fixed_freq=ff),
                          q if quick else ("thorough",),
                          twins=() if (no_overlap and what in ("iou", "shift")) else ("any",), twin_timeout=400))
    return obs


INFO = dict(
    functions=[
        "soundevent.evaluation.affinity: compute_affinity, compute_affinity_in_time, _prepare_geometry",
        "soundevent.geometry.operations: buffer_geometry, buffer_timestamp, compute_bounds",
        "soundevent.geometry.conversion: geometry_to_shapely (TimeStamp, TimeInterval, BoundingBox, Polygon, MultiPolygon)",
    ],
    bounds="17 of the 81 ordered type pairs: {TimeStamp, TimeInterval} x {TimeStamp, TimeInterval, BoundingBox, "
    "Polygon(3 pts), MultiPolygon(1x3 pts)} in both orders and BoundingBox x BoundingBox (symbolic times with seven "
    "concrete frequency-band configurations: overlapping, disjoint, nested, touching, equal, degenerate, reversed "
    "order — fully symbolic boxes make z3's nonlinear solver time out unpredictably and are not part of the check); times <= 1e6, "
    "frequencies <= 5e6, buffers <= 1e6; exact real arithmetic (z3 NRA)",
    trusted_base=["models/pyd.py", "models/shp.py (bounds; area/intersection of axis-aligned rectangles)",
                  "CrossHair 0.0.110 + z3 (Real)"],
    outside=[
        "IEEE-754 rounding of the ratio (decided over the reals only): 'never more than 1' in doubles is NOT decided",
        "the 64 type pairs that need GEOS buffer/intersection (Point, LineString, MultiPoint, MultiLineString "
        "anywhere; Polygon/MultiPolygon against non-time types); ratios such as 1.0000000000000007 arise there and "
        "are not reachable by this technique",
    ],
)
