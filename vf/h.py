"""Helpers shared by every harness module (props/cNN.py).

A harness function is an ordinary Python function over the *public* soundevent
API that returns True iff the property's clause holds for its arguments.  The
same function is
  * executed symbolically by CrossHair (VERIF_MODE=model: contract models in
    place of compiled libraries, arguments symbolic), and
  * executed concretely against the unmodified real libraries to replay a
    counterexample or a reachability witness (VERIF_MODE=real).
"""

from __future__ import annotations

import datetime as _dt
import os
import uuid as _uuid

MODEL = os.environ.get("VERIF_MODE", "real") == "model"

PARAMS: dict = {}
TWIN = None  # name of the reachability tag being searched, or None


def P(name, default=None):
    return PARAMS.get(name, default)


def done(**tags):
    """End of a harness: property held on this path.

    In twin mode (TWIN=<tag>) returns False when the path is a non-trivial
    witness for <tag>, so that the solver must exhibit one.
    """
    if TWIN is None:
        return True
    if TWIN not in tags:
        raise KeyError("unknown twin tag %r (have %r)" % (TWIN, sorted(tags)))
    return not tags[TWIN]


LAST_FAIL = None
FAIL_KNOWN = []
_KNOWN_STATE = {}


def fail(label):
    """End of a harness: the clause named ``label`` is violated on this path."""
    global LAST_FAIL, FAIL_KNOWN
    LAST_FAIL = label
    FAIL_KNOWN = sorted(k for k, v in _KNOWN_STATE.items() if v)
    return False


def known(finding_id, in_class):
    """Mark the input class of a recorded known finding.

    Returns True when this path lies in the class AND the obligation is being
    re-run with that finding excluded (PARAMS['exclude']): the harness then
    skips the path, so that any OTHER violation is still found.  Otherwise it
    only records whether the current path is in the class (reported with a
    failure, and used to match the finding precisely)."""
    in_class = True if in_class else False
    _KNOWN_STATE[finding_id] = in_class
    return in_class and finding_id in PARAMS.get("exclude", ())


class OutsideModel(Exception):
    """A contract model was asked for behaviour it does not state."""


# -- atoms: small ints standing for concrete leaves the code only compares /
#    hashes / copies.  In real mode they become real values, injectively.

_WORDS = ["alpha", "beta", "gamma", "delta", "épsilon", "z eta", "eta", "theta"]


def S(i, prefix="s"):
    """string atom"""
    if MODEL or i is None:
        return i
    return "%s%d_%s" % (prefix, i, _WORDS[i % len(_WORDS)])


def U(i):
    """uuid atom (always concrete in harnesses)"""
    if i is None:
        return None
    if MODEL:
        return _uuid.UUID(int=int(i))
    return _uuid.UUID(int=int(i))


def DT(i):
    if MODEL or i is None:
        return i
    return _dt.datetime(2020, 1, 1) + _dt.timedelta(seconds=int(i) * 3601, microseconds=int(i))


def DATE(i):
    if MODEL or i is None:
        return i
    return _dt.date(2020, 1, 1) + _dt.timedelta(days=int(i))


def TIME(i):
    if MODEL or i is None:
        return i
    return _dt.time(int(i) % 24, (7 * int(i)) % 60, 1)


def EMAIL(i):
    if MODEL or i is None:
        return i
    return "user%d@example.org" % i


def finite(*xs):
    for x in xs:
        if x != x or x == float("inf") or x == float("-inf"):
            return False
    return True


def setup(fakes=(), modules=(), real_first=(), fmt_cut=True, rebind=None):
    """Called at the top of a harness module.  No-op in real mode."""
    if not MODEL:
        import importlib

        for m in modules:
            importlib.import_module(m)
        return
    import importlib

    from vf import env

    table = {}
    for name in fakes:
        if name == "pydantic":
            from models import pyd

            table["pydantic"] = pyd
        else:
            mod = importlib.import_module("models." + name)
            table.update(mod.FAKES)
    env.install(table, modules=modules, real_first=real_first, fmt_cut=fmt_cut)
