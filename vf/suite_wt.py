"""Run the pinned suite inside a scratch worktree (seeded change) and compare with BASELINE stable_pass."""
import json, subprocess, sys, xml.etree.ElementTree as ET
wt = sys.argv[1]
out = "/tmp/_suite_%s.xml" % wt.strip("/").replace("/", "_")
subprocess.run("cd %s && PYTHONPATH=%s/src /venv/bin/python -m pytest -q -p no:cacheprovider --timeout=900 --continue-on-collection-errors --junitxml=%s > /dev/null 2>&1" % (wt, wt, out), shell=True)
want = set(json.load(open("/root/.vp/BASELINE.json"))["stable_pass"])
got = set()
for tc in ET.parse(out).getroot().iter("testcase"):
    if not any(ch.tag in ("failure", "error", "skipped") for ch in tc):
        got.add("%s::%s" % (tc.get("classname"), tc.get("name")))
missing = sorted(want - got)
print("%s stable_pass=%d passed_now=%d missing=%d %s" % (wt, len(want), len(got), len(missing), missing[:5]))
