"""Run the repository's pinned suite and compare with /root/.vp/BASELINE.json stable_pass."""
import json, subprocess, sys, xml.etree.ElementTree as ET, os
out = "/tmp/_suite_junit.xml"
subprocess.run("cd /repo && /venv/bin/python -m pytest -ra -q -p no:cacheprovider --timeout=900 --continue-on-collection-errors --junitxml=%s > /tmp/_suite.log 2>&1" % out, shell=True)
base = json.load(open("/root/.vp/BASELINE.json"))
want = set(base["stable_pass"])
got = set()
for tc in ET.parse(out).getroot().iter("testcase"):
    ok = not any(ch.tag in ("failure", "error", "skipped") for ch in tc)
    if ok:
        got.add("%s::%s" % (tc.get("classname"), tc.get("name")))
missing = sorted(want - got)
print("stable_pass=%d passed_now=%d missing=%d" % (len(want), len(got), len(missing)))
for m in missing[:20]:
    print("  MISSING", m)
sys.exit(1 if missing else 0)
