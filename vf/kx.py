"""KX — floating-point kernels posed to z3 directly.

The REAL function is executed once over a numeric domain whose scalars are
z3 Float64 terms (class ZF: + - * / with round-nearest-even, comparisons give
z3 booleans).  Straight-line arithmetic therefore turns into z3 terms built by
the code under test itself — regenerated from /repo's current source on every
run.  Library calls whose *result shape* depends on float values (np.arange)
are intercepted: their symbolic arguments are recorded and the question
"does numpy produce another number of elements than the lattice arithmetic
says?" becomes one QF_FP query.

Use: refutation only.  sat => concrete doubles => replayed on the real code
with real numpy/xarray (oracle evaluated in exact rationals where needed).
unsat/unknown within the budget is reported as "no IEEE counterexample found
within N s", never as a proof.
"""

from __future__ import annotations

import time

import z3

F64 = z3.Float64()
RNE = z3.RNE()


class SymbolicBranch(Exception):
    """the code under test branched on a float-dependent condition"""


class ZB:
    """z3 boolean; `sh` is the truth value exact arithmetic gives for the sample assignment (None: unknown) —
    the exploration follows it first, so the first path is the one the lattice arithmetic intends"""

    def __init__(self, e, sh=None):
        self.e = e
        self.sh = sh

    def __bool__(self):
        e = z3.simplify(self.e)
        if z3.is_true(e):
            return True
        if z3.is_false(e):
            return False
        raise SymbolicBranch(str(e)[:200])


def lift(x):
    if isinstance(x, ZF):
        return x.e
    if isinstance(x, bool):
        raise TypeError("bool in float arithmetic")
    if isinstance(x, (int, float)):
        return z3.FPVal(float(x), F64)
    raise TypeError("cannot lift %r" % (x,))


def shadow(x):
    """exact value of x under the fixed sample assignment of the variables"""
    from fractions import Fraction

    if isinstance(x, ZF):
        return x.sh
    return Fraction(x)


DIV_PARTS = {}  # id of a quotient term -> (term, numerator, denominator)


def quotient_facts(x):
    """For a quotient q = n/d: (cond, gt1, bad) where, under `cond` (n >= 0, d > 0, both finite),
    q > 1 <=> n > d (div_lemma, discharged by the solvers at run time), q >= 0 and q is not NaN."""
    t = DIV_PARTS.get(x.e.get_id())
    if t is None or not t[0].eq(x.e):
        return None
    _, n, d = t
    zero = z3.FPVal(0.0, F64)
    cond = z3.And(z3.fpGEQ(n, zero), z3.fpGT(d, zero), z3.Not(z3.fpIsInf(n)), z3.Not(z3.fpIsInf(d)))
    return cond, z3.fpGT(n, d)


def _canon(e, cache):
    """rebuild a term with the operands of IEEE add/mul (commutative) in one canonical order"""
    k = e.get_id()
    if k in cache:
        return cache[k][1]
    ch = [_canon(c, cache) for c in e.children()]
    if ch:
        kind = e.decl().kind()
        if kind in (z3.Z3_OP_FPA_ADD, z3.Z3_OP_FPA_MUL) and len(ch) == 3 and ch[1].get_id() > ch[2].get_id():
            ch = [ch[0], ch[2], ch[1]]
        r = e.decl()(*ch)
    else:
        r = e
    cache[k] = (e, r)  # the key term is kept alive: z3 re-uses the ids of collected terms
    return r


def tie_normalize(constraints, variables):
    """Path conditions of min/max code contain ties: not(u < v) and not(v < u) for two inputs.  With NaN and -0
    excluded (the caller's base constraints) a tie is bit-identity, so v is replaced by u everywhere and
    commutative operands are re-ordered: the two sides of a symmetric computation become the same term and
    contradictions become syntactic.  Returns (constraints', ties)."""
    names = {v.e.get_id(): v.e for v in variables}
    lt = set()
    for c in constraints:
        if z3.is_not(c):
            a = c.arg(0)
            if a.decl().kind() == z3.Z3_OP_FPA_LT and a.arg(0).get_id() in names and a.arg(1).get_id() in names:
                lt.add((a.arg(0).get_id(), a.arg(1).get_id()))
            if a.decl().kind() == z3.Z3_OP_FPA_GT and a.arg(0).get_id() in names and a.arg(1).get_id() in names:
                lt.add((a.arg(1).get_id(), a.arg(0).get_id()))
    ties = [(u, v) for (u, v) in lt if (v, u) in lt and u < v]
    if not ties:
        return list(constraints), []
    # union-find so chains of ties collapse onto one representative
    rep = {}

    def find(x):
        while rep.get(x, x) != x:
            x = rep[x]
        return x

    for u, v in ties:
        ru, rv = find(u), find(v)
        if ru != rv:
            rep[max(ru, rv)] = min(ru, rv)
    sub = [(names[x], names[find(x)]) for x in names if find(x) != x]
    cache = {}
    out = []
    for c in constraints:
        c2 = z3.simplify(_canon(z3.substitute(c, *sub), cache))
        out.append(c2)
    return out, [(str(a), str(b)) for a, b in sub]


def div_lemma(timeout_s=300):
    """for all finite doubles n >= 0, d > 0:  fl(n/d) > 1  <=>  n > d   (and fl(n/d) >= 0, not NaN).
    Returns the solve() record; status must be `unsat` for the rewriting to be used."""
    n, d = z3.FP("lem_n", F64), z3.FP("lem_d", F64)
    zero, one = z3.FPVal(0.0, F64), z3.FPVal(1.0, F64)
    q = z3.fpDiv(RNE, n, d)
    pre = [z3.fpGEQ(n, zero), z3.fpGT(d, zero), z3.Not(z3.fpIsInf(n)), z3.Not(z3.fpIsInf(d))]
    neg = z3.Or(z3.Xor(z3.fpGT(q, one), z3.fpGT(n, d)), z3.fpLT(q, zero), z3.fpIsNaN(q))
    return solve(pre + [neg], timeout_s, {})


def _scalar(o):
    return isinstance(o, (ZF, int, float)) and not isinstance(o, bool)


class ZF:
    """a z3 Float64 term behaving like a Python float under + - * / and comparisons; it also carries the
    exact (rational) value the expression has for a fixed sample assignment of the variables, which tells
    what exact arithmetic would give (e.g. the length of a float range)"""

    __slots__ = ("e", "sh")

    def __init__(self, e, sh=None):
        self.e = e
        self.sh = sh

    def _bin(self, o, f, g, swap=False):
        if not _scalar(o):
            return NotImplemented
        a, b = (lift(o), self.e) if swap else (self.e, lift(o))
        sa, sb = (shadow(o), self.sh) if swap else (self.sh, shadow(o))
        sh = g(sa, sb) if sa is not None and sb is not None else None
        if f in (z3.fpAdd, z3.fpMul) and a.get_id() > b.get_id():
            a, b = b, a  # IEEE addition and multiplication are commutative: one canonical operand order
        r = ZF(f(RNE, a, b), sh)
        if f is z3.fpDiv:
            DIV_PARTS[r.e.get_id()] = (r.e, a, b)
        return r

    def __add__(self, o):
        return self._bin(o, z3.fpAdd, lambda x, y: x + y)

    def __radd__(self, o):
        return self._bin(o, z3.fpAdd, lambda x, y: x + y, True)

    def __sub__(self, o):
        return self._bin(o, z3.fpSub, lambda x, y: x - y)

    def __rsub__(self, o):
        return self._bin(o, z3.fpSub, lambda x, y: x - y, True)

    def __mul__(self, o):
        return self._bin(o, z3.fpMul, lambda x, y: x * y)

    def __rmul__(self, o):
        return self._bin(o, z3.fpMul, lambda x, y: x * y, True)

    def __truediv__(self, o):
        return self._bin(o, z3.fpDiv, lambda x, y: x / y)

    def __rtruediv__(self, o):
        return self._bin(o, z3.fpDiv, lambda x, y: x / y, True)

    def __neg__(self):
        return ZF(z3.fpNeg(self.e), -self.sh if self.sh is not None else None)

    def __lt__(self, o):
        return ZB(z3.fpLT(self.e, lift(o)), self._cmp(o, lambda x, y: x < y))

    def __le__(self, o):
        return ZB(z3.fpLEQ(self.e, lift(o)), self._cmp(o, lambda x, y: x <= y))

    def __gt__(self, o):
        return ZB(z3.fpGT(self.e, lift(o)), self._cmp(o, lambda x, y: x > y))

    def __ge__(self, o):
        return ZB(z3.fpGEQ(self.e, lift(o)), self._cmp(o, lambda x, y: x >= y))

    def __eq__(self, o):
        return ZB(z3.fpEQ(self.e, lift(o)), self._cmp(o, lambda x, y: x == y))

    def __ne__(self, o):
        return ZB(z3.Not(z3.fpEQ(self.e, lift(o))), self._cmp(o, lambda x, y: x != y))

    def _cmp(self, o, f):
        try:
            so = shadow(o)
        except Exception:  # noqa
            return None
        return None if self.sh is None or so is None else bool(f(self.sh, so))

    __hash__ = None

    def __repr__(self):
        return "ZF(%s)" % (str(self.e)[:60],)


def var(name, sample=None):
    from fractions import Fraction

    return ZF(z3.FP(name, F64), Fraction(sample) if sample is not None else None)


def arange_len(start, stop, step):
    """numpy's arange length in doubles: ceil((stop - start)/step), as an FP term"""
    q = z3.fpDiv(RNE, z3.fpSub(RNE, lift(stop), lift(start)), lift(step))
    return z3.fpRoundToIntegral(z3.RTP(), q)


def finite_between(x, lo, hi):
    return z3.And(z3.fpLEQ(z3.FPVal(lo, F64), x.e), z3.fpLEQ(x.e, z3.FPVal(hi, F64)))


def exact_mul(a, b):
    """a*b is exactly representable (same result rounding down and up)"""
    return z3.fpEQ(z3.fpMul(z3.RTN(), lift(a), lift(b)), z3.fpMul(z3.RTP(), lift(a), lift(b)))


def exact_add(a, b):
    return z3.fpEQ(z3.fpAdd(z3.RTN(), lift(a), lift(b)), z3.fpAdd(z3.RTP(), lift(a), lift(b)))


CVC5 = "/usr/bin/cvc5"


def _cvc5_start(smt2, names, timeout_s):
    """second back end: the same query, as SMT-LIB2 text, handed to the cvc5 binary (a portfolio: z3's FP
    bit-blasting and cvc5's differ a lot per query).  Returns (Popen, path) or None."""
    import os
    import subprocess
    import tempfile

    if not os.path.exists(CVC5) or os.environ.get("VERIF_NO_CVC5"):
        return None
    body = smt2.replace("(check-sat)", "")
    text = "(set-option :produce-models true)\n(set-logic ALL)\n" + body + "\n(check-sat)\n"
    if names:
        text += "(get-value (%s))\n" % " ".join(names)
    keep = os.environ.get("VERIF_KX_KEEP")
    if keep:
        with open(os.path.join(keep, "q%d_%d.smt2" % (os.getpid(), int(time.time() * 1000) % 100000000)), "w") as f:
            f.write(text)
    fd, path = tempfile.mkstemp(suffix=".smt2", prefix="verif_kx_")
    with os.fdopen(fd, "w") as f:
        f.write(text)
    try:
        pr = subprocess.Popen([CVC5, "--tlimit=%d" % int(timeout_s * 1000), path], stdout=subprocess.PIPE,
                              stderr=subprocess.PIPE, text=True)
    except OSError:
        os.unlink(path)
        return None
    return pr, path


def _cvc5_finish(started, wait_s):
    """-> (status, {name: float}) ; anything unexpected (an `(error` line, a time-out) is `unknown`"""
    import os
    import re
    import struct
    import subprocess

    pr, path = started
    try:
        try:
            out, err = pr.communicate(timeout=max(0.1, wait_s))
        except subprocess.TimeoutExpired:
            pr.kill()
            pr.communicate()
            return "unknown", {}
    finally:
        try:
            os.unlink(path)
        except OSError:
            pass
    # cvc5 stops at the first error, so a first line `sat`/`unsat` means every assertion was accepted; the only
    # error tolerated is the one `get-value` raises after `unsat`
    first = out.strip().splitlines()[0].strip() if out.strip() else ""
    if first == "unsat":
        return "unsat", {}
    if first != "sat" or "(error" in out or "(error" in err:
        return "unknown", {}
    vals = {}
    for name, sg, ex, mant in re.findall(r"\((\w+) \(fp #b([01]) #b([01]{11}) #(b[01]{52}|x[0-9a-f]{13})\)\)", out):
        m = mant[1:] if mant[0] == "b" else bin(int(mant[1:], 16))[2:].zfill(52)
        bits = int(sg + ex + m, 2)
        vals[name] = struct.unpack(">d", bits.to_bytes(8, "big"))[0]
    for name, kind in re.findall(r"\((\w+) \(_ (NaN|\+oo|-oo|\+zero|-zero) 11 53\)\)", out):
        vals[name] = {"NaN": float("nan"), "+oo": float("inf"), "-oo": float("-inf"), "+zero": 0.0, "-zero": -0.0}[kind]
    return "sat", vals


def kill_cvc5(started):
    import os

    if started:
        try:
            started[0].kill()
            started[0].communicate()
        except Exception:  # noqa
            pass
        try:
            os.unlink(started[1])
        except OSError:
            pass


def solve(constraints, timeout_s, wanted, portfolio=True):
    """(status, {name: float}) ; status in sat/unsat/unknown.  z3 (in process) and cvc5 (sub-process, same
    SMT-LIB2 text) run side by side; the first sat/unsat wins; a sat model is only ever used as a candidate
    that the caller replays on the real code, and unsat from either is reported with the back end's name."""
    s = z3.Solver()
    s.set("timeout", int(timeout_s * 1000))
    for c in constraints:
        s.add(c)
    smt2 = s.to_smt2()
    t0 = time.time()
    names = [v.e.decl().name() for v in wanted.values() if z3.is_const(v.e)]
    declared = [n for n in names if "(declare-fun %s " % n in smt2]  # variables eliminated by normalisation: any value
    started = _cvc5_start(smt2, declared, timeout_s) if portfolio and len(names) == len(wanted) else None
    r = s.check()
    out = {"status": str(r), "backend": "z3", "smt2": smt2[:20000]}
    if str(r) == "sat":
        m = s.model()
        vals = {}
        for name, v in wanted.items():
            val = m.eval(v.e, model_completion=True)
            vals[name] = fp_to_float(val)
        out["model"] = vals
    if started:
        if str(r) in ("sat", "unsat"):
            kill_cvc5(started)
        else:
            st, vals = _cvc5_finish(started, timeout_s - (time.time() - t0) + 2)
            if st == "sat" and set(vals) >= set(declared):
                by_decl = {v.e.decl().name(): k for k, v in wanted.items()}
                out.update(status="sat", backend="cvc5", model={by_decl[n]: vals.get(n, 0.0) for n in names})
            elif st == "unsat":
                out.update(status="unsat", backend="cvc5")
    out["solve_s"] = round(time.time() - t0, 2)
    if out["status"] == "sat":
        LAST["backend"] = out["backend"]
    return out


LAST = {"backend": None}


def free_vars(e, acc=None):
    acc = set() if acc is None else acc
    seen = set()

    def walk(t):
        if t.get_id() in seen:
            return
        seen.add(t.get_id())
        if z3.is_const(t) and t.decl().kind() == z3.Z3_OP_UNINTERPRETED:
            acc.add(t.decl().name())
        for c in t.children():
            walk(c)

    walk(e)
    return acc


def solve_staged(constraints, timeout_s, wanted, first, tries=4):
    """two-stage search for a model (refutation only): stage 1 solves the constraints that mention only the
    variables in `first` (typically the cheap add/mul part that makes the property fail), stage 2 substitutes
    that model and solves the rest (path conditions with divisions become constant-folded).  A stage-2 unsat
    only rules out that one stage-1 model: it is blocked and another is tried.  Never returns `unsat`."""
    t0 = time.time()
    names = set(first)
    c1 = [c for c in constraints if free_vars(c) <= names]
    w1 = {k: v for k, v in wanted.items() if k in names}
    block = []
    out = {"status": "unknown", "solve_s": 0.0, "stages": []}
    for _ in range(tries):
        left = timeout_s - (time.time() - t0)
        if left < 2:
            break
        r1 = solve(c1 + block, left / 2, w1)
        out["stages"].append(("first", r1["status"], r1.get("backend"), r1["solve_s"]))
        if r1["status"] != "sat":
            break
        sub = [(wanted[k].e, z3.FPVal(v, F64)) for k, v in r1["model"].items()]
        c2 = [z3.simplify(z3.substitute(c, *sub)) for c in constraints]
        w2 = {k: v for k, v in wanted.items() if k not in names}
        r2 = solve(c2, max(2.0, (timeout_s - (time.time() - t0)) / 2), w2)
        out["stages"].append(("second", r2["status"], r2.get("backend"), r2["solve_s"]))
        if r2["status"] == "sat":
            out.update(status="sat", model=dict(r1["model"], **r2["model"]))
            break
        block.append(z3.Or(*[z3.Not(z3.fpEQ(wanted[k].e, z3.FPVal(v, F64))) for k, v in r1["model"].items()]))
    out["solve_s"] = round(time.time() - t0, 2)
    return out


def fp_to_float(val):
    import struct

    if z3.is_fp_value(val) or True:
        try:
            if val.isNaN():
                return float("nan")
            if val.isInf():
                return float("-inf") if val.isNegative() else float("inf")
            bv = z3.simplify(z3.fpToIEEEBV(val))
            return struct.unpack(">d", int(bv.as_long()).to_bytes(8, "big"))[0]
        except Exception:  # noqa
            return float(eval(str(val).replace("*(2**", "*(2.0**")))  # noqa: S307


# ---------------------------------------------------------------------------
# path exploration for kernels that branch on float comparisons

_TRAIL = None


class _Trail:
    def __init__(self, prefix, base=(), prune_timeout_ms=0):
        self.prefix = list(prefix)  # forced decisions
        self.taken = []  # (z3 cond, bool, flippable)
        self.base = list(base)
        self.prune_timeout_ms = prune_timeout_ms

    def _feasible(self, extra):
        s = z3.Solver()
        s.set("timeout", self.prune_timeout_ms)
        for c in self.base:
            s.add(c)
        for c, d, _ in self.taken:
            s.add(c if d else z3.Not(c))
        s.add(extra)
        return str(s.check()) != "unsat"

    def decide(self, e, hint=None):
        i = len(self.taken)
        if i < len(self.prefix):
            d, flippable = self.prefix[i], False
        elif self.prune_timeout_ms:
            t_ok = self._feasible(e)
            f_ok = self._feasible(z3.Not(e))
            if t_ok and f_ok:
                d, flippable = (True if hint is None else bool(hint)), True
            elif t_ok:
                d, flippable = True, False
            else:
                d, flippable = False, False
        else:
            d, flippable = (True if hint is None else bool(hint)), True
        self.taken.append((e, d, flippable))
        return d


def _zb_bool(self):
    e = z3.simplify(self.e)
    if z3.is_true(e):
        return True
    if z3.is_false(e):
        return False
    if _TRAIL is None:
        raise SymbolicBranch(str(e)[:200])
    return _TRAIL.decide(e, getattr(self, "sh", None))


ZB.__bool__ = _zb_bool


EXHAUSTED = {"left": 0}  # paths left unexplored by the last explore_iter (deadline / max_paths)


def explore_iter(fn, max_paths=64, base=(), prune_timeout_ms=0, deadline=None):
    """run fn() once per decision sequence; with prune_timeout_ms every new decision is checked against the
    path condition (+ base constraints) and infeasible sides are not explored; yields
    (path_condition_list, result_or_exception), the path the sample assignment takes first"""
    global _TRAIL
    todo = [[]]
    count = 0
    while todo and count < max_paths:
        if deadline is not None and time.time() > deadline:
            EXHAUSTED["left"] = len(todo)
            return
        prefix = todo.pop()
        _TRAIL = _Trail(prefix, base, prune_timeout_ms)
        try:
            try:
                res = fn()
            except Exception as e:  # noqa - the kernel's own exceptions (and unexplorable branches) are results
                res = e
            taken = _TRAIL.taken
        finally:
            _TRAIL = None
        pc = [c if d else z3.Not(c) for c, d, _ in taken]
        count += 1
        for i in range(len(prefix), len(taken)):
            if taken[i][2]:
                todo.append([d for _, d, _ in taken[:i]] + [not taken[i][1]])
        EXHAUSTED["left"] = len(todo)
        yield (pc, res)


def explore(fn, max_paths=64, base=(), prune_timeout_ms=0):
    return list(explore_iter(fn, max_paths, base, prune_timeout_ms))


class ZI:
    """integer obtained from a float term (truncation); usable as an index: concretised by forking"""

    def __init__(self, e, sh=None):
        self.e = e
        self.sh = sh

    def _lift(self, o):
        return o.e if isinstance(o, ZI) else z3.IntVal(int(o))

    def _sh(self, o):
        if isinstance(o, ZI):
            return o.sh
        return int(o)

    def __add__(self, o):
        so = self._sh(o)
        return ZI(self.e + self._lift(o), (self.sh + so) if self.sh is not None and so is not None else None)

    def __sub__(self, o):
        so = self._sh(o)
        return ZI(self.e - self._lift(o), (self.sh - so) if self.sh is not None and so is not None else None)

    def __lt__(self, o):
        return ZB(self.e < self._lift(o), self._cmp(o, lambda x, y: x < y))

    def __le__(self, o):
        return ZB(self.e <= self._lift(o), self._cmp(o, lambda x, y: x <= y))

    def __gt__(self, o):
        return ZB(self.e > self._lift(o), self._cmp(o, lambda x, y: x > y))

    def __ge__(self, o):
        return ZB(self.e >= self._lift(o), self._cmp(o, lambda x, y: x >= y))

    def __eq__(self, o):
        return ZB(self.e == self._lift(o), self._cmp(o, lambda x, y: x == y))

    def __ne__(self, o):
        return ZB(self.e != self._lift(o), self._cmp(o, lambda x, y: x != y))

    def _cmp(self, o, f):
        so = self._sh(o)
        return None if self.sh is None or so is None else bool(f(self.sh, so))

    __hash__ = None
    BOUND = 16

    def __neg__(self):
        return ZI(-self.e, -self.sh if self.sh is not None else None)

    def __radd__(self, o):
        return ZI(self._lift(o) + self.e, (int(o) + self.sh) if self.sh is not None else None)

    def __rsub__(self, o):
        return ZI(self._lift(o) - self.e, (int(o) - self.sh) if self.sh is not None else None)

    def __bool__(self):
        return bool(ZB(self.e != 0, None if self.sh is None else self.sh != 0))

    def pick(self, lo, hi):
        """concretise within lo..hi by forking (the value exact arithmetic gives first); None: outside"""
        cands = []
        if self.sh is not None:
            cands = [k for k in (self.sh, self.sh + 1, self.sh - 1) if lo <= k <= hi]
        cands += [k for k in range(lo, hi + 1) if k not in cands]
        for k in cands:
            if ZB(self.e == k, True if self.sh == k else None):  # neighbours of the exact value next
                return k
        return None

    def __index__(self):
        # the value exact arithmetic gives (shadow) first, then the neighbours
        cands = []
        if self.sh is not None:
            cands = [self.sh, self.sh + 1, self.sh - 1]
        cands += [k for k in range(-1, self.BOUND + 1) if k not in cands]
        for k in cands:
            if ZB(self.e == k, None if self.sh is None else self.sh == k):
                return k
        raise SymbolicBranch("index outside the bound")

    __int__ = __index__


def _zf_int(self):
    import math

    sh = None if self.sh is None else math.trunc(self.sh)
    return ZI(z3.ToInt(z3.fpToReal(z3.fpRoundToIntegral(z3.RTZ(), self.e))), sh)


ZF.__int__ = _zf_int
ZF.__trunc__ = _zf_int


def zf_ceil(x):
    import math

    if isinstance(x, ZF):
        return ZF(z3.fpRoundToIntegral(z3.RTP(), x.e), None if x.sh is None else type(x.sh)(math.ceil(x.sh)))
    return math.ceil(x)


def zf_floor(x):
    import math

    if isinstance(x, ZF):
        return ZF(z3.fpRoundToIntegral(z3.RTN(), x.e), None if x.sh is None else type(x.sh)(math.floor(x.sh)))
    return math.floor(x)


def kx_int(x=0, *a):
    if isinstance(x, ZF):
        return x.__int__()
    if isinstance(x, ZI):
        return x
    return int(x, *a)


def kx_max(*args):
    """builtin max over values that may be ZI / ZF: pairwise, through (forking) comparisons"""
    if len(args) == 1:
        args = tuple(args[0])
    m = args[0]
    for x in args[1:]:
        if x > m:
            m = x
    return m


def kx_min(*args):
    """builtin min over values that may be ZI / ZF (first minimal element, like the builtin)"""
    if len(args) == 1:
        args = tuple(args[0])
    m = args[0]
    for x in args[1:]:
        if x < m:
            m = x
    return m
