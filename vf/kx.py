"""KX — floating-point kernels posed to z3 directly.

The REAL function is executed once over a numeric domain whose scalars are
z3 Float64 terms (class ZF: + - * / with round-nearest-even, comparisons give
z3 booleans).  Straight-line arithmetic therefore turns into z3 terms built by
the code under test itself — regenerated from /repo's current source on every
run.  Library calls whose *result shape* depends on float values (np.arange)
are intercepted: their symbolic arguments are recorded and the question
"does numpy produce another number of elements than the lattice arithmetic
says?" becomes one QF_FP query.

Use: refutation only.  sat => concrete doubles => replayed on the real code
with real numpy/xarray (oracle evaluated in exact rationals where needed).
unsat/unknown within the budget is reported as "no IEEE counterexample found
within N s", never as a proof.
"""

from __future__ import annotations

import time

import z3

F64 = z3.Float64()
RNE = z3.RNE()


class SymbolicBranch(Exception):
    """the code under test branched on a float-dependent condition"""


class ZB:
    def __init__(self, e):
        self.e = e

    def __bool__(self):
        e = z3.simplify(self.e)
        if z3.is_true(e):
            return True
        if z3.is_false(e):
            return False
        raise SymbolicBranch(str(e)[:200])


def lift(x):
    if isinstance(x, ZF):
        return x.e
    if isinstance(x, bool):
        raise TypeError("bool in float arithmetic")
    if isinstance(x, (int, float)):
        return z3.FPVal(float(x), F64)
    raise TypeError("cannot lift %r" % (x,))


class ZF:
    """a z3 Float64 term behaving like a Python float under + - * / and comparisons"""

    __slots__ = ("e",)

    def __init__(self, e):
        self.e = e

    def __add__(self, o):
        if not isinstance(o, (ZF, int, float)) or isinstance(o, bool):
            return NotImplemented
        return ZF(z3.fpAdd(RNE, self.e, lift(o)))

    def __radd__(self, o):
        if not isinstance(o, (ZF, int, float)) or isinstance(o, bool):
            return NotImplemented
        return ZF(z3.fpAdd(RNE, lift(o), self.e))

    def __sub__(self, o):
        if not isinstance(o, (ZF, int, float)) or isinstance(o, bool):
            return NotImplemented
        return ZF(z3.fpSub(RNE, self.e, lift(o)))

    def __rsub__(self, o):
        if not isinstance(o, (ZF, int, float)) or isinstance(o, bool):
            return NotImplemented
        return ZF(z3.fpSub(RNE, lift(o), self.e))

    def __mul__(self, o):
        if not isinstance(o, (ZF, int, float)) or isinstance(o, bool):
            return NotImplemented
        return ZF(z3.fpMul(RNE, self.e, lift(o)))

    def __rmul__(self, o):
        if not isinstance(o, (ZF, int, float)) or isinstance(o, bool):
            return NotImplemented
        return ZF(z3.fpMul(RNE, lift(o), self.e))

    def __truediv__(self, o):
        if not isinstance(o, (ZF, int, float)) or isinstance(o, bool):
            return NotImplemented
        return ZF(z3.fpDiv(RNE, self.e, lift(o)))

    def __rtruediv__(self, o):
        if not isinstance(o, (ZF, int, float)) or isinstance(o, bool):
            return NotImplemented
        return ZF(z3.fpDiv(RNE, lift(o), self.e))

    def __neg__(self):
        return ZF(z3.fpNeg(self.e))

    def __lt__(self, o):
        return ZB(z3.fpLT(self.e, lift(o)))

    def __le__(self, o):
        return ZB(z3.fpLEQ(self.e, lift(o)))

    def __gt__(self, o):
        return ZB(z3.fpGT(self.e, lift(o)))

    def __ge__(self, o):
        return ZB(z3.fpGEQ(self.e, lift(o)))

    def __eq__(self, o):
        return ZB(z3.fpEQ(self.e, lift(o)))

    def __ne__(self, o):
        return ZB(z3.Not(z3.fpEQ(self.e, lift(o))))

    __hash__ = None

    def __repr__(self):
        return "ZF(%s)" % (str(self.e)[:60],)


def var(name):
    return ZF(z3.FP(name, F64))


def arange_len(start, stop, step):
    """numpy's arange length in doubles: ceil((stop - start)/step), as an FP term"""
    q = z3.fpDiv(RNE, z3.fpSub(RNE, lift(stop), lift(start)), lift(step))
    return z3.fpRoundToIntegral(z3.RTP(), q)


def finite_between(x, lo, hi):
    return z3.And(z3.fpLEQ(z3.FPVal(lo, F64), x.e), z3.fpLEQ(x.e, z3.FPVal(hi, F64)))


def exact_mul(a, b):
    """a*b is exactly representable (same result rounding down and up)"""
    return z3.fpEQ(z3.fpMul(z3.RTN(), lift(a), lift(b)), z3.fpMul(z3.RTP(), lift(a), lift(b)))


def exact_add(a, b):
    return z3.fpEQ(z3.fpAdd(z3.RTN(), lift(a), lift(b)), z3.fpAdd(z3.RTP(), lift(a), lift(b)))


def solve(constraints, timeout_s, wanted):
    """(status, {name: float}) ; status in sat/unsat/unknown"""
    s = z3.Solver()
    s.set("timeout", int(timeout_s * 1000))
    for c in constraints:
        s.add(c)
    t0 = time.time()
    r = s.check()
    out = {"status": str(r), "solve_s": round(time.time() - t0, 2), "smt2": s.to_smt2()[:20000]}
    if str(r) == "sat":
        m = s.model()
        vals = {}
        for name, v in wanted.items():
            val = m.eval(v.e, model_completion=True)
            vals[name] = fp_to_float(val)
        out["model"] = vals
    return out


def fp_to_float(val):
    import struct

    if z3.is_fp_value(val) or True:
        try:
            if val.isNaN():
                return float("nan")
            if val.isInf():
                return float("-inf") if val.isNegative() else float("inf")
            bv = z3.simplify(z3.fpToIEEEBV(val))
            return struct.unpack(">d", int(bv.as_long()).to_bytes(8, "big"))[0]
        except Exception:  # noqa
            return float(eval(str(val).replace("*(2**", "*(2.0**")))  # noqa: S307


# ---------------------------------------------------------------------------
# path exploration for kernels that branch on float comparisons

_TRAIL = None


class _Trail:
    def __init__(self, prefix):
        self.prefix = list(prefix)  # forced decisions
        self.taken = []  # (z3 cond, bool)

    def decide(self, e):
        i = len(self.taken)
        if i < len(self.prefix):
            d = self.prefix[i]
        else:
            d = True
        self.taken.append((e, d))
        return d


def _zb_bool(self):
    e = z3.simplify(self.e)
    if z3.is_true(e):
        return True
    if z3.is_false(e):
        return False
    if _TRAIL is None:
        raise SymbolicBranch(str(e)[:200])
    return _TRAIL.decide(e)


ZB.__bool__ = _zb_bool


def explore(fn, max_paths=64):
    """run fn() once per feasible-looking decision sequence; yields
    (path_condition_list, result_or_exception)"""
    global _TRAIL
    todo = [[]]
    out = []
    while todo and len(out) < max_paths:
        prefix = todo.pop()
        _TRAIL = _Trail(prefix)
        try:
            try:
                res = fn()
            except SymbolicBranch:
                raise
            except Exception as e:  # noqa - the kernel's own exceptions are results
                res = e
            taken = _TRAIL.taken
        finally:
            _TRAIL = None
        pc = [c if d else z3.Not(c) for c, d in taken]
        out.append((pc, res))
        # schedule the flips of the decisions made beyond the forced prefix
        for i in range(len(prefix), len(taken)):
            todo.append([d for _, d in taken[:i]] + [not taken[i][1]])
    return out
