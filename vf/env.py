"""Analysis-process environment: load soundevent from /repo/src with contract
models substituted for compiled libraries and with the formatting cut.

Nothing here touches /repo: substitution happens in this process only.
"""

from __future__ import annotations

import ast
import builtins
import importlib
import importlib.abc
import importlib.machinery
import importlib.util
import os
import sys

REPO_SRC = os.environ.get("VERIF_REPO_SRC", "/repo/src")


class Fmt(tuple):
    """Opaque, hashable, injective stand-in for a formatted string."""

    __slots__ = ()

    def __repr__(self):
        return "Fmt" + tuple.__repr__(self)

    def __str__(self):
        return repr(self)


def __verif_fmt__(*parts):
    return Fmt(parts)


class _FmtCut(ast.NodeTransformer):
    def visit_JoinedStr(self, node):
        args = []
        for v in node.values:
            if isinstance(v, ast.FormattedValue):
                args.append(self.visit(v.value))
            else:
                args.append(v)
        return ast.copy_location(
            ast.Call(func=ast.Name(id="__verif_fmt__", ctx=ast.Load()), args=args, keywords=[]),
            node,
        )


class _Loader(importlib.machinery.SourceFileLoader):
    fmt_cut = True

    def get_code(self, fullname):
        path = self.get_filename(fullname)
        source = self.get_data(path)
        tree = ast.parse(source, filename=path)
        if self.fmt_cut:
            tree = ast.fix_missing_locations(_FmtCut().visit(tree))
        return compile(tree, path, "exec", dont_inherit=True)


class _Finder(importlib.abc.MetaPathFinder):
    def find_spec(self, fullname, path, target=None):
        if fullname != "soundevent" and not fullname.startswith("soundevent."):
            return None
        rel = fullname.split(".")
        base = os.path.join(REPO_SRC, *rel)
        if os.path.isdir(base):
            fn = os.path.join(base, "__init__.py")
            return importlib.util.spec_from_file_location(
                fullname, fn, loader=_Loader(fullname, fn), submodule_search_locations=[base]
            )
        fn = base + ".py"
        if os.path.exists(fn):
            return importlib.util.spec_from_file_location(fullname, fn, loader=_Loader(fullname, fn))
        return None


_installed = False


def install(fakes=None, modules=(), real_first=(), fmt_cut=True):
    """Import ``modules`` (soundevent.*) with ``fakes`` {name: module} visible
    as third-party libraries, then restore sys.modules.

    ``real_first``: third-party modules to import for real before the swap
    (so that they do not pick up a fake of something they depend on).
    """
    global _installed
    assert not any(m == "soundevent" or m.startswith("soundevent.") for m in sys.modules), (
        "soundevent already imported"
    )
    sys.dont_write_bytecode = True
    for name in real_first:
        importlib.import_module(name)
    builtins.__verif_fmt__ = __verif_fmt__
    _Loader.fmt_cut = fmt_cut
    if not _installed:
        sys.meta_path.insert(0, _Finder())
        _installed = True
    saved = {}
    fakes = dict(fakes or {})
    for name, mod in fakes.items():
        saved[name] = sys.modules.get(name)
        sys.modules[name] = mod
    try:
        out = [importlib.import_module(m) for m in modules]
    finally:
        for name, old in saved.items():
            if old is None:
                sys.modules.pop(name, None)
            else:
                sys.modules[name] = old
    return out
