"""State-merging helpers: a conditional expression that does NOT fork the
symbolic execution (one z3 ``If`` instead of two paths).  Used only inside
contract models and oracles; the code under test keeps its own branches.

Concrete mode (replay on the real code): plain Python."""

from __future__ import annotations

from vf.h import MODEL

if MODEL:
    import z3
    from crosshair.libimpl.builtinslib import SymbolicBool, SymbolicFloat, SymbolicInt
    from crosshair.tracers import NoTracing
    import crosshair.libimpl.builtinslib as _b

    def _float_cls():
        return _b._PYTYPE_TO_WRAPPER_TYPE[float][0][0]

    def ite(c, a, b):
        with NoTracing():
            if not isinstance(c, SymbolicBool):
                return a if c else b
            if a is b:
                return a
            if isinstance(a, (SymbolicInt, int)) and isinstance(b, (SymbolicInt, int)) and not (
                isinstance(a, bool) or isinstance(b, bool)
            ):
                va = a.var if isinstance(a, SymbolicInt) else z3.IntVal(a)
                vb = b.var if isinstance(b, SymbolicInt) else z3.IntVal(b)
                return SymbolicInt(z3.If(c.var, va, vb))
            cls = None
            for x in (a, b):
                if isinstance(x, SymbolicFloat):
                    cls = type(x)
            if cls is None:
                cls = _float_cls()

            def conv(x):
                if isinstance(x, SymbolicFloat):
                    return x.var
                if isinstance(x, SymbolicInt):
                    raise TypeError("ite: symbolic int in a float conditional")
                lit = cls._smt_promote_literal(float(x))
                if lit is None:
                    raise TypeError("ite: cannot promote %r" % (x,))
                return lit

            return cls(z3.If(c.var, conv(a), conv(b)))

    def band(*cs):
        """non-forking conjunction"""
        with NoTracing():
            vs = []
            for c in cs:
                if isinstance(c, SymbolicBool):
                    vs.append(c.var)
                elif not c:
                    return False
            if not vs:
                return True
            return SymbolicBool(z3.And(*vs)) if len(vs) > 1 else SymbolicBool(vs[0])

    def bor(*cs):
        with NoTracing():
            vs = []
            for c in cs:
                if isinstance(c, SymbolicBool):
                    vs.append(c.var)
                elif c:
                    return True
            if not vs:
                return False
            return SymbolicBool(z3.Or(*vs)) if len(vs) > 1 else SymbolicBool(vs[0])

    def bnot(c):
        with NoTracing():
            if isinstance(c, SymbolicBool):
                return SymbolicBool(z3.Not(c.var))
            return not c

    def is_finite(x):
        with NoTracing():
            if isinstance(x, SymbolicFloat):
                if z3.is_fp(x.var):
                    return SymbolicBool(z3.Not(z3.Or(z3.fpIsNaN(x.var), z3.fpIsInf(x.var))))
                return True  # exact reals are finite
        return x == x and x != float("inf") and x != float("-inf")

else:

    def is_finite(x):
        return x == x and x != float("inf") and x != float("-inf")

    def ite(c, a, b):
        return a if c else b

    def band(*cs):
        for c in cs:
            if not c:
                return False
        return True

    def bor(*cs):
        for c in cs:
            if c:
                return True
        return False

    def bnot(c):
        return not c


def fmin(a, b):
    return ite(a <= b, a, b)


def fmax(a, b):
    return ite(a >= b, a, b)


def lo(xs):
    m = xs[0]
    for x in xs[1:]:
        m = fmin(m, x)
    return m


def hi(xs):
    m = xs[0]
    for x in xs[1:]:
        m = fmax(m, x)
    return m


def all_finite(xs):
    return band(*[is_finite(x) for x in xs])
