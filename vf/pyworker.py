"""Run ONE "py"-kind obligation: a function that regenerates solver queries
from /repo's current source (KX encoder) and discharges them itself.

usage: python -m vf.pyworker MODULE FN [--params JSON] [--timeout S]
The function receives (params: dict, timeout: float) and returns a dict with
status in {confirmed, refuted, unknown, error} and, when refuted,
'replay_fn' + 'args' ([args, kwargs]) naming a harness function to replay on
the real code.
"""

from __future__ import annotations

import argparse
import json
import os
import sys
import time
import traceback


def main():
    ap = argparse.ArgumentParser()
    ap.add_argument("module")
    ap.add_argument("fn")
    ap.add_argument("--params", default="{}")
    ap.add_argument("--timeout", type=float, default=60.0)
    a = ap.parse_args()
    os.environ["VERIF_MODE"] = "real"
    t0 = time.time()
    out = {"module": a.module, "fn": a.fn, "mode": "kx", "twin": None}
    try:
        import importlib

        mod = importlib.import_module(a.module)
        res = getattr(mod, a.fn)(json.loads(a.params), a.timeout)
        out.update(res)
    except BaseException as e:  # noqa
        out["status"] = "error"
        out["message"] = "%s: %s" % (type(e).__name__, e)
        out["traceback"] = traceback.format_exc()[-3000:]
    out["wall_s"] = round(time.time() - t0, 3)
    sys.stdout.flush()
    print("\nVERDICT " + json.dumps(out, default=repr))


if __name__ == "__main__":
    main()
