"""pytest plugin: run the repository's own data/IO tests with the pure-Python pydantic contract model
(models/pyd.py) substituted for pydantic, to validate the model against the behaviour the suite pins.

usage: cd /repo && PYTHONPATH=/verif /verif/.venv/bin/python -m pytest -p vf.pyd_conformance tests/test_data -q
Tests that inspect pydantic internals are expected to differ; everything else must agree with real pydantic."""

import os
import sys

os.environ["VERIF_MODE"] = "model"
sys.path.insert(0, "/verif")
for name in ("numpy", "xarray", "shapely", "scipy.sparse.csgraph", "scipy.optimize", "rasterio.features", "sklearn.metrics",
             "matplotlib.pyplot", "crowsetta", "soundfile", "hypothesis"):
    try:
        __import__(name)
    except Exception:  # noqa
        pass
from models import pyd  # noqa: E402

_real = sys.modules.get("pydantic")
sys.modules["pydantic"] = pyd
import soundevent  # noqa: E402,F401
import soundevent.io  # noqa: E402,F401
import soundevent.geometry  # noqa: E402,F401
import soundevent.evaluation  # noqa: E402,F401

# the model stays in sys.modules for the whole session, so that `from pydantic import ValidationError` in the
# tests names the model's exception class
