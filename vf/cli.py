"""./check <ID> [--tier quick|thorough] [--replay PATH] [--only REGEX] [--jobs N]

Regenerates every obligation of property <ID> from /repo's current working
tree, discharges them with CrossHair/z3 (or direct z3 queries), replays every
counterexample and every reachability witness against the real code, writes
/verif/evidence/<ID>.json and prints VIOLATION / KNOWN-FINDING lines.

exit 0: every obligation discharged (known findings aside)
exit 1: a violation that reproduces on the real code and is not a listed finding
exit 3: harness error (model/real divergence, vacuous harness) in any tier; an obligation left undecided by the
        solver within its budget: exit 3 in the quick tier, listed as inconclusive (exit 0) in the thorough tier
"""

from __future__ import annotations

import argparse
import copy
import concurrent.futures as cf
import importlib
import json
import os
import re
import subprocess
import sys
import time

ROOT = os.path.dirname(os.path.dirname(os.path.abspath(__file__)))
PY = os.path.join(ROOT, ".venv", "bin", "python")
EXIT_OK, EXIT_VIOLATION, EXIT_HARNESS = 0, 1, 3


_CHILDREN = set()


def _kill_children(*_a):
    for p in list(_CHILDREN):
        try:
            p.kill()
        except Exception:  # noqa
            pass
    if _a:
        os._exit(143)


def _sub(cmd, wall, tag, env=None):
    e = dict(os.environ)
    e["PYTHONPATH"] = ROOT
    if e.get("VERIF_REPO_SRC"):
        # run against another checkout of soundevent (seeded-change experiments); default is /repo/src
        e["PYTHONPATH"] = ROOT + os.pathsep + e["VERIF_REPO_SRC"]
    e["PYTHONDONTWRITEBYTECODE"] = "1"
    e.pop("VERIF_MODE", None)
    if env:
        e.update(env)
    t0 = time.time()
    p = subprocess.Popen(cmd, stdout=subprocess.PIPE, stderr=subprocess.PIPE, text=True, env=e, cwd=ROOT)
    _CHILDREN.add(p)
    try:
        try:
            out, err = p.communicate(timeout=wall)
        except subprocess.TimeoutExpired:
            p.kill()
            p.communicate()
            return {"status": "unknown", "message": "hard wall timeout %.0fs" % wall, "wall_s": wall}
    finally:
        _CHILDREN.discard(p)
    for line in reversed(out.splitlines()):
        if line.startswith(tag + " "):
            d = json.loads(line[len(tag) + 1:])
            d.setdefault("wall_s", round(time.time() - t0, 3))
            return d
    return {
        "status": "error",
        "message": "no %s line (rc=%s)" % (tag, p.returncode),
        "stderr": err[-3000:],
        "stdout": out[-1000:],
        "wall_s": round(time.time() - t0, 3),
    }


def run_symbolic(module, ob, twin=None, timeout=None):
    timeout = timeout or (ob.twin_timeout if twin else ob.timeout)
    if ob.kind == "py":
        cmd = [PY, "-m", "vf.pyworker", module, ob.fn.__name__, "--params", json.dumps(ob.params),
               "--timeout", str(timeout)]
    else:
        cmd = [PY, "-m", "vf.worker", module, ob.fn.__name__, "--mode", ob.mode, "--timeout", str(timeout),
               "--params", json.dumps(ob.params)]
        if ob.path_timeout:
            cmd += ["--path-timeout", str(ob.path_timeout)]
        if twin:
            cmd += ["--twin", twin]
    return _sub(cmd, timeout * 2 + 90, "VERDICT")


def run_replay(module, fn_name, args, params, twin=None):
    cmd = [PY, "-m", "vf.replay", module, fn_name, "--args", json.dumps(args), "--params", json.dumps(params)]
    if twin:
        cmd += ["--twin", twin]
    return _sub(cmd, 300, "RESULT")


def load_findings():
    p = os.path.join(ROOT, "known_findings.json")
    if not os.path.exists(p):
        return []
    return json.load(open(p))["entries"]


def match_finding(findings, pid, obname, clause, known_classes=()):
    """a listed finding matches only the obligation, the clause AND the input
    class it was recorded for (the harness marks the class with h.known)"""
    for f in findings:
        if f.get("status") != "finding" or f.get("property") != pid:
            continue
        if not re.fullmatch(f.get("obligation", ".*"), obname):
            continue
        if f.get("clause") is not None and f["clause"] != clause:
            continue
        if f.get("input_class", True) and f["id"] not in (known_classes or ()):
            continue
        return f
    return None


def handle(module, pid, ob, twin, findings):
    """Run one task (main obligation or one twin).  Returns a record."""
    rec = {"name": ob.name + ("~" + twin if twin else ""), "ob": ob.name, "twin": twin, "mode": ob.mode,
           "kind": ob.kind, "params": ob.params, "fn": ob.fn.__name__, "events": []}
    v = run_symbolic(module, ob, twin)
    if v.get("status") == "unknown" and ob.kind == "py":
        # refutation searches carry their own budget: running into the hard wall is "searched", never retried
        v = dict(v, status="searched", message="no verdict within the wall-clock budget (%s)" % v.get("message"))
    if v.get("status") == "unknown" and not twin and ob.timeout <= 1200:
        # one retry with a larger budget before calling it inconclusive (obligations that already have a budget of
        # more than 20 minutes are not retried: they are listed as undecided)
        rec["events"].append("retry after inconclusive (%s)" % v.get("message", ""))
        v2 = run_symbolic(module, ob, twin, timeout=min(ob.timeout * 3, ob.timeout + 900))
        v2["paths"] = v2.get("paths", 0) + v.get("paths", 0)
        v2["solve_s"] = v2.get("solve_s", 0) + v.get("solve_s", 0)
        v = v2
    rec["verdict"] = v
    st = v.get("status")
    replay_fn = v.get("replay_fn", ob.fn.__name__)
    if twin:
        if st != "refuted":
            # confirmed = the tagged end is unreachable (vacuous harness); unknown = the search for a witness ran
            # out of budget (undecided)
            rec["outcome"] = "inconclusive" if st == "unknown" else "harness"
            rec["why"] = ("reachability twin %r not witnessed (status=%s): vacuous or inconclusive harness"
                          % (twin, st))
            return rec
        if "args" not in v:
            rec["outcome"] = "harness"
            rec["why"] = "witness not parseable: %s" % v.get("message")
            return rec
        on = run_replay(module, replay_fn, v["args"], ob.params, twin)
        off = run_replay(module, replay_fn, v["args"], ob.params, None)
        rec["replay_twin"] = on
        rec["replay"] = off
        if off.get("ret") is not True:
            rec["outcome"] = "violation"
            rec["clause"] = off.get("clause") or off.get("exc")
            rec["known_classes"] = off.get("known") or []
            rec["why"] = "reachability witness violates the clause on the real code"
            return rec
        if on.get("ret") is not False:
            rec["outcome"] = "harness"
            rec["why"] = "witness does not reach the tagged end on the real code (model/real divergence): %s" % on
            return rec
        rec["outcome"] = "witness"
        return rec
    if st == "confirmed":
        rec["outcome"] = "discharged"
        return rec
    if st == "searched":
        # IEEE refutation search that neither found a counterexample nor proved absence within its
        # budget: reported as such, claimed as nothing
        rec["outcome"] = "searched"
        rec["why"] = v.get("message")
        return rec
    if st == "refuted":
        if "args" not in v:
            rec["outcome"] = "harness"
            rec["why"] = "counterexample not parseable: %s" % v.get("message")
            return rec
        r = run_replay(module, replay_fn, v["args"], ob.params, None)
        rec["replay"] = r
        if r.get("ret") is True:
            rec["outcome"] = "harness"
            rec["why"] = ("counterexample does not reproduce on the real code (model/encoding divergence): %s"
                          % v.get("message"))
            return rec
        rec["outcome"] = "violation"
        rec["clause"] = r.get("clause") or v.get("clause") or r.get("exc")
        rec["known_classes"] = r.get("known") or []
        # a listed finding: re-run with its input class excluded so that any
        # OTHER violation of the same obligation is still reported
        hits = []
        excl = []
        cur = rec
        for _round in range(4):
            f = match_finding(findings, pid, ob.name, cur.get("clause"), cur.get("known_classes"))
            if f is None:
                break
            hits.append({"finding": f, "verdict": cur["verdict"], "clause": cur["clause"]})
            excl.append(f["id"])
            ob2 = copy.copy(ob)
            ob2.params = dict(ob.params, exclude=excl)
            v2 = run_symbolic(module, ob2, None)
            if v2.get("status") == "unknown":
                v2 = run_symbolic(module, ob2, None, timeout=ob.timeout * 3)
            nxt = {"verdict": v2}
            if v2.get("status") == "confirmed":
                rec["outcome"] = "known"
                rec["hits"] = hits
                rec["verdict_excluding_known"] = v2
                return rec
            if v2.get("status") == "refuted" and "args" in v2:
                r2 = run_replay(module, replay_fn, v2["args"], ob2.params, None)
                if r2.get("ret") is True:
                    rec["outcome"] = "harness"
                    rec["why"] = "counterexample (known finding excluded) does not reproduce: %s" % v2.get("message")
                    return rec
                nxt["clause"] = r2.get("clause") or v2.get("clause") or r2.get("exc")
                nxt["known_classes"] = r2.get("known") or []
                cur = nxt
                rec["verdict"] = v2
                rec["clause"] = nxt["clause"]
                rec["known_classes"] = nxt["known_classes"]
                rec["params"] = ob2.params
                continue
            rec["outcome"] = "inconclusive"
            rec["why"] = "after excluding known finding(s) %s: %s" % (excl, v2.get("message") or v2.get("status"))
            rec["hits"] = hits
            return rec
        rec["hits"] = hits
        return rec
    rec["outcome"] = "harness" if st == "error" else "inconclusive"
    rec["why"] = v.get("message") or st
    return rec


def main(argv=None):
    ap = argparse.ArgumentParser()
    ap.add_argument("pid")
    ap.add_argument("--tier", default=os.environ.get("VERIF_TIER", "quick"), choices=["quick", "thorough"])
    ap.add_argument("--replay", default=None)
    ap.add_argument("--only", default=None)
    ap.add_argument("--jobs", type=int, default=min(16, os.cpu_count() or 4))
    ap.add_argument("--no-evidence", action="store_true")
    ap.add_argument("--list", action="store_true")
    a = ap.parse_args(argv)
    pid = a.pid.upper()
    module = "props." + pid.lower()
    seed = int(os.environ.get("VERIF_SEED", "0") or 0)

    if a.replay:
        d = json.load(open(a.replay))
        r = run_replay(d["module"], d["fn"], d["args"], d["params"], None)
        print(json.dumps(r, indent=1))
        if r.get("ret") is True:
            print("replay: clause holds on the real code for this input")
            return EXIT_OK
        print("VIOLATION property=%s replay=%s" % (pid, a.replay))
        return EXIT_VIOLATION

    import atexit
    import signal

    atexit.register(_kill_children)
    signal.signal(signal.SIGTERM, _kill_children)
    signal.signal(signal.SIGINT, _kill_children)
    t0 = time.time()
    os.environ["VERIF_MODE"] = "real"
    sys.path.insert(0, ROOT)
    mod = importlib.import_module(module)
    obs = [o for o in mod.plan() if a.tier in o.tiers]
    if a.only:
        obs = [o for o in obs if re.search(a.only, o.name)]
    if a.list:
        for o in obs:
            print(o.name, o.mode, o.timeout, o.params, o.twins)
        return 0
    findings = load_findings()
    tasks = []
    for o in obs:
        tasks.append((o, None))
        for tw in o.twins:
            tasks.append((o, tw))
    # longest first
    tasks.sort(key=lambda t: -(t[0].timeout if t[1] is None else 1))
    recs = []
    with cf.ThreadPoolExecutor(max_workers=a.jobs) as ex:
        futs = [ex.submit(handle, module, pid, o, tw, findings) for o, tw in tasks]
        for f in cf.as_completed(futs):
            r = f.result()
            recs.append(r)
            if os.environ.get("VERIF_PROGRESS"):
                print("  [%6.1fs] %-50s %-12s paths=%s solve=%ss" % (
                    time.time() - t0, r["name"], r["outcome"], r["verdict"].get("paths"),
                    r["verdict"].get("solve_s")), file=sys.stderr, flush=True)
    recs.sort(key=lambda r: r["name"])

    rdir = os.path.join(ROOT, "replays", pid)
    violations, known, harness = [], [], []
    witnesses = []
    for r in recs:
        oc = r["outcome"]
        if oc == "known":
            for hit in r["hits"]:
                known.append((r, hit["finding"]))
            continue
        if oc == "violation":
            for hit in r.get("hits", []):
                known.append((r, hit["finding"]))
            f = match_finding(findings, pid, r["ob"], r.get("clause"), r.get("known_classes"))
            os.makedirs(rdir, exist_ok=True)
            path = os.path.join(rdir, re.sub(r"[^A-Za-z0-9_.~-]", "_", r["name"]) + ".json")
            json.dump({"property": pid, "module": module, "fn": r["verdict"].get("replay_fn", r["fn"]),
                       "params": r["params"], "args": r["verdict"]["args"], "clause": r.get("clause"),
                       "message": r["verdict"].get("message"), "obligation": r["name"]}, open(path, "w"), indent=1)
            r["replay_path"] = path
            if f:
                known.append((r, f))
            else:
                violations.append(r)
        elif oc in ("harness", "inconclusive"):
            harness.append(r)
        elif oc == "witness":
            witnesses.append(r)

    seen_f = {}
    for r, f in known:
        seen_f.setdefault(f.get("id", ""), (f, []))[1].append(r["name"])
    for fid, (f, names) in seen_f.items():
        print("KNOWN-FINDING: property=%s %s [%s; hit by obligations: %s]" % (pid, f["what"], fid, ", ".join(sorted(set(names)))))
    for r in violations:
        print("# %s: %s -- %s" % (r["name"], r.get("clause"), r["verdict"].get("message")))
        print("VIOLATION property=%s replay=%s" % (pid, r["replay_path"]))
    for r in harness:
        print("# INCONCLUSIVE/HARNESS %s: %s" % (r["name"], r.get("why")), file=sys.stderr)

    mains = [r for r in recs if not r["twin"]]
    discharged = [r for r in mains if r["outcome"] in ("discharged", "known")]
    distinct = {json.dumps([r["ob"], r["twin"], r["verdict"].get("args")], sort_keys=True, default=repr)
                for r in witnesses}
    info = getattr(mod, "INFO", {})
    solver_s = sum(r["verdict"].get("solve_s", 0) or 0 for r in recs)
    cov = {
        "explanation": (
            "bounded symbolic verification of the real soundevent code: each obligation is a harness over the "
            "public API executed path-by-path by CrossHair with z3 deciding every branch (or a formula regenerated "
            "from the source and posed to z3 directly); 'discharged' means Confirmed over all paths = the clause "
            "holds for EVERY value of the symbolic inputs inside the stated bounds; compiled libraries are contract "
            "models listed in trusted_base; every counterexample and every reachability witness is replayed on the "
            "unmodified real code before it is reported"
        ),
        "obligations": len(mains),
        "discharged": len(discharged),
        "checker_cmd": "./check %s --tier %s" % (pid, a.tier),
        "trusted_base": info.get("trusted_base", []),
        "evaluations": int(sum(r["verdict"].get("paths", 0) or 0 for r in recs)),
        "distinct_nontrivial": len(distinct),
        "rule": (
            "evaluations = execution paths explored symbolically (each path covers all input values that follow it); "
            "distinct_nontrivial = distinct reachability-twin witnesses (solver-produced concrete inputs reaching a "
            "tagged outcome of the harness, e.g. 'accept'/'reject') that replayed on the real code with the same "
            "outcome and with the clause holding"
        ),
        "samples": [
            {"obligation": r["name"], "witness_args": r["verdict"].get("args"), "params": r["params"]}
            for r in witnesses[:12]
        ] or [{"obligation": r["name"], "params": r["params"], "status": r["outcome"]} for r in mains[:12]],
        "functions_encoded": info.get("functions", []),
        "bounds": info.get("bounds", ""),
        "outside_claim": info.get("outside", []),
        "solver_time_s": round(solver_s, 1),
        "inconclusive": [{"name": r["name"], "why": r.get("why")} for r in harness],
        "ieee_searches_without_verdict": [{"name": r["name"], "why": r.get("why")} for r in recs
                                          if r["outcome"] == "searched"],
        "known_findings_hit": [f.get("id") for _, f in known],
        "per_obligation": [
            {"name": r["name"], "outcome": r["outcome"], "mode": r["mode"], "paths": r["verdict"].get("paths"),
             "solve_s": r["verdict"].get("solve_s"), "queries": r["verdict"].get("queries")}
            for r in recs
        ],
        "exhaustive": False,
    }
    ev = {
        "property_id": pid,
        "tier": a.tier,
        "seed": seed,
        "level": "other",
        "coverage": cov,
        "assumptions": info.get("trusted_base", []) + ["outside the claim: " + x for x in info.get("outside", [])],
        "wall_s": round(time.time() - t0, 2),
        "violations": len(violations),
    }
    if not a.no_evidence and not a.only:
        os.makedirs(os.path.join(ROOT, "evidence"), exist_ok=True)
        json.dump(ev, open(os.path.join(ROOT, "evidence", pid + ".json"), "w"), indent=1, default=repr)
    print("%s tier=%s obligations=%d discharged=%d twins_witnessed=%d known=%d violations=%d inconclusive=%d "
          "paths=%d wall=%.1fs" % (pid, a.tier, len(mains), len(discharged), len(witnesses), len(known),
                                  len(violations), len(harness), cov["evaluations"], time.time() - t0))
    if violations:
        return EXIT_VIOLATION
    undecided = [r for r in harness if r["outcome"] == "inconclusive"]
    broken = [r for r in harness if r["outcome"] != "inconclusive"]
    if broken:
        return EXIT_HARNESS
    if undecided and a.tier == "quick":
        return EXIT_HARNESS
    if undecided:
        # thorough tier: obligations the solver did not decide within their (tripled on retry) budget are listed in
        # the evidence as inconclusive and claimed as nothing; everything that WAS explored held
        print("%s tier=thorough: %d obligation(s) undecided within budget — listed in the evidence, not claimed"
              % (pid, len(undecided)))
    return EXIT_OK


if __name__ == "__main__":
    sys.exit(main())
