"""Obligation records."""

from __future__ import annotations


class Ob:
    """One proof obligation.

    kind "xh": ``fn`` is a harness function (PEP-316 contract) executed
    symbolically by CrossHair/z3 in float mode ``mode`` ("ieee" | "real");
    expected verdict: Confirmed over all paths.
    kind "py": ``fn(params) -> dict(status=..., ...)`` poses solver queries
    itself (KX encoder); run in a subprocess.
    ``twins``: reachability tags; each must be *refuted* with a witness that
    replays on the real code.
    """

    def __init__(self, name, fn, mode="ieee", timeout=60, params=None, tiers=("quick", "thorough"),
                 twins=(), kind="xh", twin_timeout=None, path_timeout=None, note=""):
        self.name = name
        self.fn = fn
        self.mode = mode
        self.timeout = timeout
        self.params = params or {}
        self.tiers = tuple(tiers)
        self.twins = tuple(twins)
        self.kind = kind
        self.twin_timeout = twin_timeout or min(timeout, 60)
        self.path_timeout = path_timeout
        self.note = note
