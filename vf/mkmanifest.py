import json,sys
sys.path.insert(0,'/verif')
props=[json.loads(l) for l in open('/verif/properties.jsonl')]
claimed=json.load(open('/verif/claims.json'))
m={"version":1,
 "setup_cmd":"./setup.sh",
 "hooks":{"guard":"SOUNDEVENT_VERIF","enable":"none needed: contract models and the formatting cut are injected in the checker's own process (sys.modules substitution + import hook); /repo is never instrumented","baseline_off_cmd":"cd /repo && /venv/bin/python -m pytest -ra -q -p no:cacheprovider --timeout=900 --continue-on-collection-errors","source_commits":[],"add_only":True},
 "engines":[{"name":"XH","path":"vf/worker.py","serves_properties":sorted(claimed),"kind_free_text":"CrossHair 0.0.110 symbolic execution of the real soundevent source with z3 5.1 deciding every branch; forced IEEE-754 or exact-real floats; pure-Python contract models for compiled libraries; every counterexample replayed on the real code"},
            {"name":"KX","path":"vf/kx.py","serves_properties":[p for p in sorted(claimed) if claimed[p].get("kx")],"kind_free_text":"AST->z3 translation of floating-point kernels regenerated from /repo's source; QF_FP refutation, LRA/NRA proof"}],
 "checks":[],"not_applicable":[],
 "notes":"See DESIGN.md. Exit 3 = inconclusive/harness error (never reported as success)."}
for p in props:
    pid=p['id']
    if pid in claimed:
        c=claimed[pid]
        m["checks"].append({"property_id":pid,"quick_cmd":"./check %s --tier quick"%pid,"thorough_cmd":"./check %s --tier thorough"%pid,
          "evidence_file":"/verif/evidence/%s.json"%pid,"replay_cmd_template":"./check %s --replay {path}"%pid,"engine":"XH"+("+KX" if c.get("kx") else ""),
          "level_claimed":{"category":"other","text":c["text"],"design_ref":"DESIGN.md §5 "+pid},
          "level_note":c["note"],"technique":c["technique"]})
    else:
        m["not_applicable"].append({"property_id":pid,"reason":"check not built yet in this round (planned: see DESIGN.md §5 %s); nothing is claimed"%pid})
json.dump(m,open('/verif/MANIFEST.json','w'),indent=1)
