"""Run a harness function concretely against the REAL soundevent + real
compiled libraries (no contract models, no formatting cut).

usage: python -m vf.replay MODULE FN --args JSON [--params JSON] [--twin TAG]
prints 'RESULT {json}'; ret=false or an exception means the clause is violated
on the real code for this input.
"""

from __future__ import annotations

import argparse
import json
import os
import sys
import traceback


def run(module, fn, args, kwargs, params, twin):
    os.environ["VERIF_MODE"] = "real"
    import importlib

    from vf import h

    assert not h.MODEL
    mod = importlib.import_module(module)
    h.PARAMS.clear()
    h.PARAMS.update(params)
    h.TWIN = twin
    h.LAST_FAIL = None
    h.FAIL_KNOWN = []
    h._KNOWN_STATE.clear()
    out = {}
    try:
        ret = getattr(mod, fn)(*args, **kwargs)
        out["ret"] = bool(ret)
        out["clause"] = h.LAST_FAIL
        out["known"] = list(h.FAIL_KNOWN) if ret is False or not ret else []
    except Exception as e:  # noqa
        out["ret"] = None
        out["exc"] = "%s: %s" % (type(e).__name__, e)
        out["traceback"] = traceback.format_exc()[-2000:]
    return out


def main():
    ap = argparse.ArgumentParser()
    ap.add_argument("module")
    ap.add_argument("fn")
    ap.add_argument("--args", default="[[], {}]")
    ap.add_argument("--params", default="{}")
    ap.add_argument("--twin", default=None)
    a = ap.parse_args()
    args, kwargs = json.loads(a.args)
    out = run(a.module, a.fn, args, kwargs, json.loads(a.params), a.twin)
    sys.stdout.flush()
    print("\nRESULT " + json.dumps(out))


if __name__ == "__main__":
    main()
