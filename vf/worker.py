"""Run ONE obligation symbolically (CrossHair + z3 over the real soundevent
code with contract models) and print a JSON verdict on the last stdout line.

usage: python -m vf.worker MODULE FN --mode ieee|real --timeout S
                           [--params JSON] [--twin TAG] [--path-timeout S]
"""

from __future__ import annotations

import argparse
import collections
import json
import os
import random
import re
import sys
import time
import traceback


def main():
    ap = argparse.ArgumentParser()
    ap.add_argument("module")
    ap.add_argument("fn")
    ap.add_argument("--mode", default="ieee", choices=["ieee", "real"])
    ap.add_argument("--timeout", type=float, default=60.0)
    ap.add_argument("--path-timeout", type=float, default=None)
    ap.add_argument("--params", default="{}")
    ap.add_argument("--twin", default=None)
    ap.add_argument("--verbose", action="store_true")
    a = ap.parse_args()

    os.environ["VERIF_MODE"] = "model"
    random.seed(int(os.environ.get("VERIF_SEED", "0") or 0))
    sys.setrecursionlimit(10000)

    import crosshair.core as xc
    import crosshair.libimpl.builtinslib as xb

    if a.mode == "ieee":
        xb._PYTYPE_TO_WRAPPER_TYPE[float] = ((xb.PreciseIeeeSymbolicFloat, 1.0),)
    else:
        xb._PYTYPE_TO_WRAPPER_TYPE[float] = ((xb.RealBasedSymbolicFloat, 1.0),)
    if a.mode == "real":
        # real-mode float arguments are finite reals only (no nan/inf forks: 4^n paths otherwise)
        os.environ["CROSSHAIR_ONLY_FINITE_FLOATS"] = "1"
        import warnings

        warnings.filterwarnings("ignore", category=FutureWarning)
        # CrossHair caps real-based results at UNKNOWN because reals are not floats;
        # obligations run in this mode claim exact arithmetic only (stated in the evidence)
        import crosshair.statespace as xs

        xs.StateSpace.cap_result_at_unknown = lambda self: None
    # no short-circuiting of callees by uninterpreted proxies (would leave
    # UNKNOWN leaves and can never give a verdict)
    xc.consider_shortcircuit = lambda *args, **kw: None

    from crosshair.options import AnalysisOptionSet
    from crosshair.core_and_libs import (
        AnalysisKind,
        MessageType,
        analyze_function,
        run_checkables,
    )

    from vf import xhpatch

    xhpatch.install()

    if a.verbose:
        from crosshair.util import set_debug

        set_debug(True)

    t0 = time.time()
    out = {"module": a.module, "fn": a.fn, "mode": a.mode, "twin": a.twin}
    try:
        import importlib

        from vf import h

        mod = importlib.import_module(a.module)
        h.PARAMS.clear()
        h.PARAMS.update(json.loads(a.params))
        h.TWIN = a.twin
        fn = getattr(mod, a.fn)
        stats = collections.Counter()
        opts = AnalysisOptionSet(
            analysis_kind=(AnalysisKind.PEP316,),
            per_condition_timeout=a.timeout,
            per_path_timeout=a.path_timeout or max(10.0, a.timeout / 3.0),
            report_all=True,
            stats=stats,
        )
        t1 = time.time()
        checkables = analyze_function(fn, opts)
        if not checkables:
            raise RuntimeError("no contract found on %s.%s" % (a.module, a.fn))
        msgs = run_checkables(checkables)
        out["paths"] = int(stats.get("num_paths", 0))
        out["solve_s"] = round(time.time() - t1, 3)
        out["setup_s"] = round(t1 - t0, 3)
        status = "unknown"
        for m in msgs:
            st = m.state
            if st == MessageType.CONFIRMED:
                status = "confirmed"
            elif st in (MessageType.POST_FAIL, MessageType.EXEC_ERR, MessageType.POST_ERR):
                status = "refuted"
                out["message"] = m.message
                out["kind"] = st.name
                mm = re.search(r"when calling (.*?)(?: \(which returns .*\))?$", m.message, re.S)
                if mm:
                    call = mm.group(1)
                    out["call"] = call

                    def cap(*args, **kw):
                        return [list(args), kw]

                    try:
                        out["args"] = eval(  # noqa: S307 - crosshair's own repr
                            call, {a.fn: cap, "float": float, "__builtins__": {}}
                        )
                    except Exception as e:  # noqa
                        out["args_error"] = repr(e)
                if st != MessageType.POST_FAIL:
                    out["traceback"] = (m.traceback or "")[-1500:]
                break
            elif st == MessageType.PRE_UNSAT:
                status = "pre_unsat"
                out["message"] = m.message
            elif st == MessageType.CANNOT_CONFIRM:
                status = "unknown"
            elif st == MessageType.SYNTAX_ERR:
                status = "error"
                out["message"] = m.message
        out["status"] = status
        out["clause"] = getattr(h, "LAST_FAIL", None) if status == "refuted" else None
        out["known"] = list(getattr(h, "FAIL_KNOWN", [])) if status == "refuted" else []
    except BaseException as e:  # noqa
        out["status"] = "error"
        out["message"] = "%s: %s" % (type(e).__name__, e)
        out["traceback"] = traceback.format_exc()[-3000:]
    out["wall_s"] = round(time.time() - t0, 3)

    def dflt(o):
        return repr(o)

    sys.stdout.flush()
    print("\nVERDICT " + json.dumps(out, default=dflt))


if __name__ == "__main__":
    main()
