"""Adjustments to CrossHair 0.0.110 needed to obtain verdicts (not samples):

* math.floor / math.ceil / math.trunc: stock CrossHair *realises* a symbolic
  float argument (random concrete value => the path only samples).  Here they
  stay symbolic: z3 ToInt on reals; fp.roundToIntegral + fp.to_real + ToInt on
  IEEE doubles.
"""

from __future__ import annotations

import math


def install():
    import z3
    import crosshair.core as xc
    from crosshair.libimpl.builtinslib import PreciseIeeeSymbolicFloat, RealBasedSymbolicFloat, SymbolicInt
    from crosshair.tracers import NoTracing

    def mk(name, real_fn, rm):
        stock = xc._PATCH_REGISTRATIONS[getattr(math, name)]

        def patched(x):
            with NoTracing():
                if isinstance(x, RealBasedSymbolicFloat):
                    return real_fn(x.var)
                is_ieee = isinstance(x, PreciseIeeeSymbolicFloat)
            if is_ieee:
                x._check_finite_convert_to("integer")
                with NoTracing():
                    return SymbolicInt(z3.ToInt(z3.fpToReal(z3.fpRoundToIntegral(rm(), x.var))))
            return stock(x)

        xc._PATCH_REGISTRATIONS[getattr(math, name)] = patched

    def r_floor(v):
        return SymbolicInt(z3.ToInt(v))

    def r_ceil(v):
        f = z3.ToInt(v)
        return SymbolicInt(z3.If(v == f, f, f + 1))

    def r_trunc(v):
        return SymbolicInt(z3.If(v >= 0, z3.ToInt(v), -z3.ToInt(-v)))

    mk("floor", r_floor, z3.RTN)
    mk("ceil", r_ceil, z3.RTP)
    mk("trunc", r_trunc, z3.RTZ)
