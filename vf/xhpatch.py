"""Adjustments to CrossHair 0.0.110 needed to obtain verdicts (not samples):

* math.floor / math.ceil / math.trunc: stock CrossHair *realises* a symbolic
  float argument (random concrete value => the path only samples).  Here they
  stay symbolic: z3 ToInt on reals; fp.roundToIntegral + fp.to_real + ToInt on
  IEEE doubles.
* int(x) on a symbolic float: likewise realised by stock CrossHair; routed to
  the symbolic ``__int__`` (truncation toward zero).
* math.isclose: a C function (arguments realised); replaced by its documented
  definition (PEP 485) in Python, which CrossHair executes symbolically.
"""

from __future__ import annotations

import math


def install():
    import z3
    import crosshair.core as xc
    from crosshair.libimpl.builtinslib import PreciseIeeeSymbolicFloat, RealBasedSymbolicFloat, SymbolicInt
    from crosshair.tracers import NoTracing

    from crosshair.core import deep_realize as _dr

    def mk(name, real_fn, rm):
        native = getattr(math, name)

        def patched(x):
            with NoTracing():
                if isinstance(x, RealBasedSymbolicFloat):
                    return real_fn(x.var)
                is_ieee = isinstance(x, PreciseIeeeSymbolicFloat)
            if is_ieee:
                x._check_finite_convert_to("integer")
                with NoTracing():
                    return SymbolicInt(z3.ToInt(z3.fpToReal(z3.fpRoundToIntegral(rm(), x.var))))
            with NoTracing():
                # anything else (concrete numbers, symbolic ints, ...): realise and call the real function
                return native(_dr(x))

        xc._PATCH_REGISTRATIONS[getattr(math, name)] = patched

    def r_floor(v):
        return SymbolicInt(z3.ToInt(v))

    def r_ceil(v):
        f = z3.ToInt(v)
        return SymbolicInt(z3.If(v == f, f, f + 1))

    def r_trunc(v):
        return SymbolicInt(z3.If(v >= 0, z3.ToInt(v), -z3.ToInt(-v)))

    # int(symbolic float): stock CrossHair realises the float; keep it symbolic (truncation)
    from crosshair.libimpl.builtinslib import SymbolicFloat

    stock_int = xc._PATCH_REGISTRATIONS[int]

    from crosshair.core import deep_realize

    def patched_int(*a, **k):
        if len(a) == 1 and not k:
            with NoTracing():
                sym_float = isinstance(a[0], SymbolicFloat)
                sym_int = isinstance(a[0], SymbolicInt)
            if sym_float:
                return a[0].__int__()
            if sym_int:
                return a[0]
        with NoTracing():
            # (symbolic strings etc.: realised, as stock CrossHair does for unsupported cases)
            return int(*deep_realize(a), **deep_realize(k))

    xc._PATCH_REGISTRATIONS[int] = patched_int

    mk("floor", r_floor, z3.RTN)
    mk("ceil", r_ceil, z3.RTP)
    mk("trunc", r_trunc, z3.RTZ)

    native_isclose = math.isclose

    def patched_isclose(a, b, *, rel_tol=1e-09, abs_tol=0.0):
        with NoTracing():
            symbolic = any(isinstance(x, SymbolicFloat) for x in (a, b, rel_tol, abs_tol))
        if not symbolic:
            with NoTracing():
                return native_isclose(deep_realize(a), deep_realize(b), rel_tol=deep_realize(rel_tol),
                                      abs_tol=deep_realize(abs_tol))
        # PEP 485 (finite arguments; the harness preconditions exclude inf/nan)
        if rel_tol < 0 or abs_tol < 0:
            raise ValueError("tolerances must be non-negative")
        if a == b:
            return True
        d = a - b
        if d < 0:
            d = -d
        aa = -a if a < 0 else a
        ab = -b if b < 0 else b
        m = aa if aa > ab else ab
        return d <= rel_tol * m or d <= abs_tol

    xc._PATCH_REGISTRATIONS[math.isclose] = patched_isclose
