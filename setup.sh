#!/bin/sh
# Build the overlay venv (offline): /venv's packages + /repo/src + crosshair-tool/z3 from the wheelhouse.
set -e
cd "$(dirname "$0")"
if [ ! -x .venv/bin/python ] || ! .venv/bin/python -c "import crosshair, z3" 2>/dev/null; then
  rm -rf .venv
  /venv/bin/python -m venv .venv
  SP=$(.venv/bin/python -c "import sysconfig; print(sysconfig.get_paths()['purelib'])")
  printf '/venv/lib/python3.12/site-packages\n/repo/src\n' > "$SP/_overlay.pth"
  PIP_NO_INDEX=1 .venv/bin/pip install -q --no-index --find-links /opt/veriftools/wheels crosshair-tool z3-solver >/dev/null
fi
.venv/bin/python -c "import crosshair, z3, soundevent"
