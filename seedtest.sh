#!/bin/sh
# ./seedtest.sh <worktree> <ID> [--only REGEX] [--tier T]: run a check against a scratch worktree of soundevent
# (a seeded change) without touching /repo and without rewriting the evidence file.
wt="$1"; shift
cd "$(dirname "$0")"
VERIF_REPO_SRC="$wt/src" PYTHONPATH="$(pwd):$wt/src" PYTHONDONTWRITEBYTECODE=1 .venv/bin/python -m vf.cli "$@" --no-evidence
