"""Pure-Python contract model of the slice of pydantic v2 that soundevent uses.

It is put in ``sys.modules['pydantic']`` *only while the soundevent modules are
being imported by the analysis process* (see vf/env.py), so that CrossHair can
execute constructors, validators, equality and the structural JSON step
symbolically.  pydantic-core (Rust) would realise every symbolic value.

Contract stated (trusted base; validated by vf/conformance.py against real
pydantic on the repository's own tests and on every solver witness):

* construction: mode="before" model validators (reverse definition order is
  irrelevant here: no class has two) -> per-field lax coercion to the
  annotation -> ge/le/gt/lt -> field validators in definition order ->
  mode="after" model validators in definition order.  ValueError /
  AssertionError raised by a validator, a failed coercion or a violated
  constraint become ``ValidationError`` (a ValueError subclass).
* unknown keyword arguments: ignored, or stored (extra="allow").
* aliases: a field with ``alias=`` is populated by its alias only.
* equality: same class, equal field dict, equal extras.
* ``model_dump_json`` / ``model_validate_json``: a *structural* document
  (nested dict / list of leaves) stands in for the JSON text; leaves of type
  str / int / finite float / bool / UUID / datetime / date / time / Path /
  Enum round-trip unchanged (that is pydantic's + json's contract and is
  outside what is decided here).

Leaf leniency (analysis only): ``str``, ``UUID``, ``datetime`` … fields accept
"atoms" (small ints / opaque hashables) standing for concrete leaves; see
vf/h.py.
"""

from __future__ import annotations

import datetime as _dt
import enum
import pathlib
import sys
import typing
import uuid as _uuid
from abc import ABCMeta
from typing import Any, Dict, List, Optional

VERSION = "2.model"

__all__ = [
    "BaseModel",
    "Field",
    "ConfigDict",
    "EmailStr",
    "ValidationError",
    "field_validator",
    "model_validator",
]


# --- native fast path ---------------------------------------------------------
# Under CrossHair every Python opcode of traced code is intercepted (~200x slower).  Structural work of this
# model (walking annotations, copying containers, dumping) never looks INSIDE symbolic leaves, so it is run
# untraced; anything that compares / tests a symbolic leaf, and every validator of the code under test, runs
# traced.  Outside CrossHair these helpers are no-ops.
try:  # pragma: no cover - only meaningful inside the analysis process
    from crosshair.core import python_type as _ch_python_type
    from crosshair.tracers import NoTracing as _NoTracing
    from crosshair.tracers import ResumedTracing as _ResumedTracing
    from crosshair.tracers import is_tracing as _is_tracing
    from crosshair.util import CrossHairValue as _CHV
except Exception:  # noqa
    _CHV = ()
    _is_tracing = lambda: False  # noqa: E731


class _Null:
    def __enter__(self):
        return self

    def __exit__(self, *a):
        return False


_IN_NATIVE = [0]


class _native:
    """context: run the block untraced if we are inside a traced CrossHair execution"""

    def __enter__(self):
        self.cm = None
        if _CHV and _is_tracing():
            self.cm = _NoTracing()
            self.cm.__enter__()
            _IN_NATIVE[0] += 1
        return self

    def __exit__(self, *a):
        if self.cm is not None:
            _IN_NATIVE[0] -= 1
            return self.cm.__exit__(*a)
        return False


class _traced:
    """context: resume tracing inside a _native() block (no-op elsewhere)"""

    def __enter__(self):
        self.cm = None
        if _CHV and _IN_NATIVE[0] > 0 and not _is_tracing():
            self.cm = _ResumedTracing()
            self.cm.__enter__()
            self.saved = _IN_NATIVE[0]
            _IN_NATIVE[0] = 0
        return self

    def __exit__(self, *a):
        if self.cm is not None:
            _IN_NATIVE[0] = self.saved
            return self.cm.__exit__(*a)
        return False


def _sym(v):
    return bool(_CHV) and isinstance(v, _CHV)


def _isinst(v, typ):
    """isinstance that also recognises CrossHair's symbolic stand-ins when running untraced"""
    if isinstance(v, typ):
        return True
    if _sym(v):
        try:
            pt = _ch_python_type(v)
        except Exception:  # noqa
            return False
        return isinstance(pt, type) and issubclass(pt, typ)
    return False


class _Undefined:
    def __repr__(self):
        return "PydanticUndefined"


PydanticUndefined = _Undefined()


class ValidationError(ValueError):
    pass


class CoercionError(Exception):
    """Internal: value does not fit annotation."""


def ConfigDict(**kw):
    return dict(kw)


EmailStr = str


class FieldInfo:
    __slots__ = (
        "default",
        "default_factory",
        "alias",
        "serialization_alias",
        "ge",
        "le",
        "gt",
        "lt",
        "annotation",
        "discriminator",
        "extra",
    )

    def __init__(
        self,
        default=PydanticUndefined,
        *,
        default_factory=None,
        alias=None,
        serialization_alias=None,
        ge=None,
        le=None,
        gt=None,
        lt=None,
        discriminator=None,
        **extra,
    ):
        if default is Ellipsis:
            default = PydanticUndefined
        self.default = default
        self.default_factory = default_factory
        self.alias = alias
        self.serialization_alias = serialization_alias
        self.ge = ge
        self.le = le
        self.gt = gt
        self.lt = lt
        self.annotation = None
        self.discriminator = discriminator
        self.extra = extra

    def is_required(self):
        return self.default is PydanticUndefined and self.default_factory is None

    def get_default(self, call_default_factory=True):
        if self.default_factory is not None:
            return self.default_factory()
        d = self.default
        if isinstance(d, (list, dict, set)):
            return type(d)(d)
        return d


def Field(default=PydanticUndefined, **kw):
    return FieldInfo(default, **kw)


class _FieldValidator:
    def __init__(self, fields, mode, fn):
        self.fields = fields
        self.mode = mode
        self.fn = fn


class _ModelValidator:
    def __init__(self, mode, fn):
        self.mode = mode
        self.fn = fn


def _unwrap(fn):
    if isinstance(fn, (classmethod, staticmethod)):
        return fn.__func__
    return fn


def field_validator(*fields, mode="after", **_kw):
    def deco(fn):
        return _FieldValidator(fields, mode, _unwrap(fn))

    return deco


def model_validator(*, mode):
    def deco(fn):
        return _ModelValidator(mode, _unwrap(fn))

    return deco


# ---------------------------------------------------------------------------
# coercion

_LEAF_ATOM_TYPES = (int, tuple)  # atoms standing for strings / ids / timestamps


def _is_atom(v):
    # Opaque stand-ins for concrete leaves (see vf/h.py): ints, Fmt/U5 tuples
    return (_isinst(v, int) or isinstance(v, tuple)) and not _isinst(v, bool)


def _resolve(ann, module_name):
    if isinstance(ann, str):
        mod = sys.modules.get(module_name)
        ns = dict(vars(typing))
        if mod is not None:
            ns.update(vars(mod))
        return eval(ann, ns)  # noqa: S307 - annotations of the code under test
    if isinstance(ann, typing.ForwardRef):
        return _resolve(ann.__forward_arg__, module_name)
    return ann


def coerce(ann, v, ctx):
    """Lax-mode coercion of ``v`` to annotation ``ann``; raises CoercionError."""
    if ann is Any or ann is object:
        return v
    if isinstance(ann, (str, typing.ForwardRef)):
        ann = _resolve(ann, ctx["module"])
    origin = typing.get_origin(ann)
    if origin is typing.Annotated:
        return coerce(typing.get_args(ann)[0], v, ctx)
    if origin is typing.Union or (
        sys.version_info >= (3, 10) and origin is getattr(__import__("types"), "UnionType", None)
    ):
        args = typing.get_args(ann)
        if v is None and type(None) in args:
            return None
        members = [a for a in args if a is not type(None)]
        # instance of a member model: kept as is
        for a in members:
            if isinstance(a, type) and isinstance(a, ModelMetaclass) and isinstance(v, a):
                return v
        disc = ctx.get("discriminator")
        if disc is not None:
            tag = v.get(disc) if isinstance(v, dict) else getattr(v, disc, None)
            for a in members:
                f = a.model_fields[disc]
                if tag in typing.get_args(f.annotation):
                    return coerce(a, v, dict(ctx, discriminator=None))
            raise CoercionError("no union member for tag")
        for a in members:
            try:
                return coerce(a, v, ctx)
            except (CoercionError, ValidationError):
                continue
        raise CoercionError("no union member matches")
    if origin is typing.Literal:
        for a in typing.get_args(ann):
            if _sym(v):
                with _traced():
                    if isinstance(v, type(a)) and v == a:
                        return a
            elif type(v) is type(a) or (isinstance(a, str) and isinstance(v, str)):
                if v == a:
                    return a
        raise CoercionError("literal mismatch")
    if origin in (list, typing.List):
        (item,) = typing.get_args(ann) or (Any,)
        if _sym(v):
            with _traced():
                if isinstance(v, (list, tuple)):
                    v = list(v)
                else:
                    raise CoercionError("not a list")
        if isinstance(v, (list, tuple)):
            return [coerce(item, x, ctx) for x in v]
        raise CoercionError("not a list")
    if origin is not None and origin.__name__ in ("Sequence",):
        (item,) = typing.get_args(ann) or (Any,)
        if isinstance(v, list):
            return [coerce(item, x, ctx) for x in v]
        if isinstance(v, tuple):
            return tuple(coerce(item, x, ctx) for x in v)
        raise CoercionError("not a sequence")
    if origin in (dict, typing.Dict):
        kt, vt = typing.get_args(ann) or (Any, Any)
        if isinstance(v, dict):
            return {coerce(kt, k, ctx): coerce(vt, x, ctx) for k, x in v.items()}
        raise CoercionError("not a dict")
    if origin in (tuple, typing.Tuple):
        args = typing.get_args(ann)
        if not isinstance(v, (list, tuple)):
            raise CoercionError("not a tuple")
        if len(args) == 2 and args[1] is Ellipsis:
            return tuple(coerce(args[0], x, ctx) for x in v)
        if len(args) != len(v):
            raise CoercionError("tuple arity")
        return tuple(coerce(a, x, ctx) for a, x in zip(args, v))
    if isinstance(ann, type):
        if isinstance(ann, ModelMetaclass):
            if isinstance(v, ann):
                return v
            if isinstance(v, dict):
                with _traced():
                    return ann(**v)
            if ctx.get("from_attributes") or ann.model_config.get("from_attributes"):
                if not isinstance(v, (str, int, float, list, tuple, type(None))) and not _sym(v):
                    with _traced():
                        return ann.model_validate(v, from_attributes=True)
            raise CoercionError("not a model instance")
        if ann is float:
            if _isinst(v, bool):
                if _sym(v):
                    with _traced():
                        return 1.0 if v else 0.0
                return 1.0 if v else 0.0
            if _isinst(v, float):
                return v
            if _isinst(v, int):
                return v  # numerically equal; kept to avoid int->fp conversions
            import numbers

            if isinstance(v, numbers.Real):
                return float(v)  # e.g. numpy scalars (only met when real numpy is in play)
            raise CoercionError("not a number")
        if ann is int:
            if _isinst(v, bool):
                if _sym(v):
                    with _traced():
                        return 1 if v else 0
                return 1 if v else 0
            if _isinst(v, int):
                return v
            if _isinst(v, float):
                with _traced():
                    if v == v // 1:
                        return int(v)
                raise CoercionError("fractional float for int")
            import numbers

            if isinstance(v, numbers.Integral):
                return int(v)
            raise CoercionError("not an int")
        if ann is bool:
            if _isinst(v, bool):
                return v
            if _isinst(v, int):
                with _traced():
                    if v == 0 or v == 1:
                        return v == 1
            raise CoercionError("not a bool")
        if ann is str:
            if _isinst(v, str) or _is_atom(v):
                return v
            raise CoercionError("not a str")
        if issubclass(ann, enum.Enum):
            if isinstance(v, ann):
                return v
            for m in ann:
                if m.value == v:
                    return m
            raise CoercionError("not an enum member")
        if ann is _uuid.UUID:
            if isinstance(v, _uuid.UUID) or _is_atom(v):
                return v
            if isinstance(v, str):
                try:
                    return _uuid.UUID(v)
                except ValueError:
                    raise CoercionError("bad uuid")
            raise CoercionError("not a uuid")
        if ann is pathlib.Path or issubclass(ann, pathlib.PurePath):
            if isinstance(v, pathlib.PurePath):
                return v
            if isinstance(v, str):
                return pathlib.Path(v)
            if hasattr(v, "__verif_path__") or _is_atom(v):
                return v
            raise CoercionError("not a path")
        if ann is _dt.datetime:
            if isinstance(v, _dt.datetime) or _is_atom(v):
                return v
            if isinstance(v, str):
                try:
                    return _dt.datetime.fromisoformat(v)
                except ValueError:
                    raise CoercionError("bad datetime")
            raise CoercionError("not a datetime")
        if ann is _dt.date:
            if isinstance(v, _dt.datetime):
                raise CoercionError("datetime for date")
            if isinstance(v, _dt.date) or _is_atom(v):
                return v
            if isinstance(v, str):
                try:
                    return _dt.date.fromisoformat(v)
                except ValueError:
                    raise CoercionError("bad date")
            raise CoercionError("not a date")
        if ann is _dt.time:
            if isinstance(v, _dt.time) or _is_atom(v):
                return v
            if isinstance(v, str):
                try:
                    return _dt.time.fromisoformat(v)
                except ValueError:
                    raise CoercionError("bad time")
            raise CoercionError("not a time")
        if isinstance(v, ann):
            return v
        raise CoercionError("not an instance of %s" % ann.__name__)
    raise NotImplementedError("pyd model: unsupported annotation %r" % (ann,))


# ---------------------------------------------------------------------------
# model


class ModelMetaclass(ABCMeta):
    def __new__(mcs, name, bases, ns, **kw):
        own_ann = ns.get("__annotations__", {})
        fields: Dict[str, FieldInfo] = {}
        fvals: List[_FieldValidator] = []
        mvals: List[_ModelValidator] = []
        config: dict = {}
        for b in reversed(bases):
            if isinstance(b, ModelMetaclass):
                fields.update(b.model_fields)
                fvals.extend(b.__pyd_field_validators__)
                mvals.extend(b.__pyd_model_validators__)
                config.update(b.model_config)
        config.update(ns.get("model_config", {}))
        for fname, ann in own_ann.items():
            if fname.startswith("_") or fname.startswith("model_"):
                continue
            if typing.get_origin(ann) is typing.ClassVar:
                continue
            if isinstance(ann, str) and ann.startswith("ClassVar"):
                continue
            dflt = ns.get(fname, PydanticUndefined)
            if isinstance(dflt, FieldInfo):
                info = dflt
            else:
                info = FieldInfo(dflt)
            info.annotation = ann
            fields[fname] = info
            ns.pop(fname, None)
        for k, v in list(ns.items()):
            if isinstance(v, _FieldValidator):
                fvals.append(v)
                ns[k] = v.fn
            elif isinstance(v, _ModelValidator):
                mvals.append(v)
                ns[k] = v.fn
        ns["model_fields"] = fields
        ns["model_config"] = config
        ns["__pyd_field_validators__"] = fvals
        ns["__pyd_model_validators__"] = mvals
        cls = super().__new__(mcs, name, bases, ns, **kw)
        return cls


class BaseModel(metaclass=ModelMetaclass):
    __slots__ = ("__dict__", "__pydantic_extra__", "__pydantic_fields_set__")
    model_fields: Dict[str, FieldInfo] = {}
    model_config: dict = {}

    def __init__(self, **data):
        cls = type(self)
        ctx = {"module": cls.__module__, "from_attributes": False}
        _build(self, cls, data, ctx)

    # -- validation entry points
    @classmethod
    def model_validate(cls, obj, *, strict=None, from_attributes=None, context=None):
        if isinstance(obj, cls):
            return obj
        if isinstance(obj, dict):
            return cls(**obj)
        if from_attributes or cls.model_config.get("from_attributes"):
            data = {}
            for fname, info in cls.model_fields.items():
                key = info.alias or fname
                if hasattr(obj, key):
                    data[key] = getattr(obj, key)
            self = cls.__new__(cls)
            ctx = {"module": cls.__module__, "from_attributes": True}
            _build(self, cls, data, ctx)
            return self
        raise ValidationError("Input should be a valid dictionary or instance")

    @classmethod
    def model_validate_json(cls, doc, **_kw):
        return cls.model_validate(json_payload(doc))

    @classmethod
    def model_construct(cls, **values):
        self = cls.__new__(cls)
        d = {}
        for fname, info in cls.model_fields.items():
            if fname in values:
                d[fname] = values[fname]
            elif not info.is_required():
                d[fname] = info.get_default()
        object.__setattr__(self, "__dict__", d)
        object.__setattr__(self, "__pydantic_extra__", None)
        object.__setattr__(self, "__pydantic_fields_set__", set(values))
        return self

    # -- dumping
    def model_dump(self, *, mode="python", exclude_none=False, exclude=None, by_alias=False, **_kw):
        return _dump(self, exclude_none, exclude, by_alias, mode)

    def model_dump_json(self, *, exclude_none=False, exclude=None, by_alias=False, **_kw):
        # structural stand-in for the JSON text (see module docstring)
        return JsonDoc(_dump(self, exclude_none, exclude, by_alias, "json"))

    def model_copy(self, *, update=None, deep=False):
        cls = type(self)
        new = cls.__new__(cls)
        d = dict(self.__dict__)
        if update:
            d.update(update)
        object.__setattr__(new, "__dict__", d)
        object.__setattr__(new, "__pydantic_extra__", _copy_extra(self.__pydantic_extra__))
        object.__setattr__(new, "__pydantic_fields_set__", set(self.__pydantic_fields_set__))
        return new

    def __copy__(self):
        return self.model_copy()

    def __deepcopy__(self, memo=None):
        import copy as _copy

        cls = type(self)
        new = cls.__new__(cls)
        object.__setattr__(new, "__dict__", _copy.deepcopy(self.__dict__, memo))
        object.__setattr__(new, "__pydantic_extra__", _copy.deepcopy(self.__pydantic_extra__, memo))
        object.__setattr__(new, "__pydantic_fields_set__", set(self.__pydantic_fields_set__))
        return new

    @property
    def model_extra(self):
        return self.__pydantic_extra__

    @property
    def model_fields_set(self):
        return self.__pydantic_fields_set__

    # -- dunder
    def __setattr__(self, name, value):
        cls = type(self)
        if cls.model_config.get("frozen"):
            raise ValidationError("Instance is frozen")
        if name in cls.model_fields:
            self.__dict__[name] = value
        elif cls.model_config.get("extra") == "allow":
            self.__pydantic_extra__[name] = value
        else:
            raise ValueError('"%s" object has no field "%s"' % (cls.__name__, name))

    def __getattr__(self, name):
        try:
            pe = object.__getattribute__(self, "__pydantic_extra__")
        except AttributeError:
            pe = None
        if pe is not None and name in pe:
            return pe[name]
        raise AttributeError(name)

    def __eq__(self, other):
        if not isinstance(other, BaseModel):
            return NotImplemented
        if type(self) is not type(other):
            return False
        if self.__dict__ != other.__dict__:
            return False
        return self.__pydantic_extra__ == other.__pydantic_extra__

    def __iter__(self):
        yield from list(self.__dict__.items())
        if self.__pydantic_extra__:
            yield from list(self.__pydantic_extra__.items())

    def __repr__(self):
        return "%s(%s)" % (
            type(self).__name__,
            ", ".join("%s=%r" % kv for kv in self.__dict__.items()),
        )

    # pydantic: a model defining __eq__ without __hash__ is unhashable
    __hash__ = None  # type: ignore


class JsonDoc(str):
    """Stand-in for JSON text: a str subclass carrying the document structure."""

    def __new__(cls, payload):
        self = str.__new__(cls, "<json document>")
        self.payload = payload
        return self


def json_payload(doc):
    if isinstance(doc, JsonDoc):
        return doc.payload
    import json

    return json.loads(doc)


def _copy_extra(e):
    return None if e is None else dict(e)


def _check_bounds(info, v):
    if v is None:
        return
    if info.ge is not None and not (v >= info.ge):
        raise ValidationError("greater_than_equal")
    if info.le is not None and not (v <= info.le):
        raise ValidationError("less_than_equal")
    if info.gt is not None and not (v > info.gt):
        raise ValidationError("greater_than")
    if info.lt is not None and not (v < info.lt):
        raise ValidationError("less_than")


def _has_sym(v):
    return _sym(v)


def _build(self, cls, data, ctx):
    try:
        for mv in cls.__pyd_model_validators__:
            if mv.mode == "before":
                data = mv.fn(cls, data)
    except (ValueError, AssertionError) as e:
        if isinstance(e, ValidationError):
            raise
        raise ValidationError(*e.args) from None
    with _native():
        values = {}
        fields_set = set()
        used = set()
        fvals = cls.__pyd_field_validators__
        for fname, info in cls.model_fields.items():
            key = info.alias if info.alias is not None else fname
            if key in data:
                used.add(key)
                raw = data[key]
                fctx = ctx
                if info.discriminator is not None:
                    fctx = dict(ctx, discriminator=info.discriminator)
                try:
                    v = coerce(info.annotation, raw, fctx)
                except CoercionError as e:
                    raise ValidationError("%s: %s" % (fname, e.args[0])) from None
                if info.ge is not None or info.le is not None or info.gt is not None or info.lt is not None:
                    if _sym(v):
                        with _traced():
                            _check_bounds(info, v)
                    else:
                        _check_bounds(info, v)
                mine = [fv for fv in fvals if fname in fv.fields or "*" in fv.fields]
                if mine:
                    with _traced():
                        try:
                            for fv in mine:
                                v = fv.fn(cls, v)
                        except (ValueError, AssertionError) as e:
                            if isinstance(e, ValidationError):
                                raise
                            raise ValidationError(*e.args) from None
                values[fname] = v
                fields_set.add(fname)
            else:
                if info.is_required():
                    raise ValidationError("%s: field required" % fname)
                values[fname] = info.get_default()
        extra = None
        if cls.model_config.get("extra") == "allow":
            extra = {k: v for k, v in data.items() if k not in used}
        elif cls.model_config.get("extra") == "forbid":
            for k in data:
                if k not in used:
                    raise ValidationError("extra field %s" % k)
        object.__setattr__(self, "__dict__", values)
        object.__setattr__(self, "__pydantic_extra__", extra)
        object.__setattr__(self, "__pydantic_fields_set__", fields_set)
    try:
        for mv in cls.__pyd_model_validators__:
            if mv.mode == "after":
                r = mv.fn(self)
                if r is not None and r is not self:
                    raise NotImplementedError("after-validator returning another object")
    except (ValueError, AssertionError) as e:
        if isinstance(e, ValidationError):
            raise
        raise ValidationError(*e.args) from None


def _dump_value(v, exclude_none, by_alias, mode):
    if isinstance(v, BaseModel):
        return _dump_impl(v, exclude_none, None, by_alias, mode)
    if isinstance(v, (list, tuple)):
        out = [_dump_value(x, exclude_none, by_alias, mode) for x in v]
        return out if (mode == "json" or isinstance(v, list)) else tuple(out)
    if isinstance(v, dict):
        return {k: _dump_value(x, exclude_none, by_alias, mode) for k, x in v.items()}
    if mode == "json" and isinstance(v, enum.Enum):
        return v.value
    return v


def _dump(self, exclude_none, exclude, by_alias, mode):
    with _native():
        return _dump_impl(self, exclude_none, exclude, by_alias, mode)


def _dump_impl(self, exclude_none, exclude, by_alias, mode):
    cls = type(self)
    out = {}
    for fname, v in self.__dict__.items():
        if exclude and fname in exclude:
            continue
        if exclude_none and v is None:
            continue
        info = cls.model_fields.get(fname)
        key = fname
        if by_alias and info is not None:
            key = info.serialization_alias or info.alias or fname
        out[key] = _dump_value(v, exclude_none, by_alias, mode)
    if self.__pydantic_extra__:
        for k, v in self.__pydantic_extra__.items():
            if exclude_none and v is None:
                continue
            out[k] = _dump_value(v, exclude_none, by_alias, mode)
    return out
