"""Contract models of the scipy entry points soundevent's glue calls.

* ``sparse.coo_array((values, (row, col)), shape, dtype)``: an edge list.
* ``csgraph.connected_components(m)``: labels of the connected components of
  the graph of non-zero entries, directed=True / connection='weak' (scipy's
  defaults) = components of the undirected closure; labels are numbered in
  order of the smallest node of each component.
* ``optimize.linear_sum_assignment(cost, maximize)``: SOME assignment of
  min(n, m) row/column pairs (rows ascending) whose total is optimal for the
  requested sense.  Which optimal assignment scipy returns on ties is not
  specified, so the model lets the solver pick any candidate and discards the
  path (IgnoreAttempt) unless it is optimal: every tie-break is covered.
"""

from __future__ import annotations

import itertools
import types

from vf.h import MODEL, OutsideModel

from models import npl


class coo_array:
    def __init__(self, arg, shape=None, dtype=None):
        values, (row, col) = arg
        self.data = list(values)
        self.row = list(row)
        self.col = list(col)
        if shape is None:
            raise OutsideModel("coo_array without shape")
        self.shape = tuple(shape)
        self.dtype = dtype
        if not (len(self.data) == len(self.row) == len(self.col)):
            raise ValueError("row, column, and data array must all be the same length")
        for r in self.row:
            if not 0 <= r < self.shape[0]:
                raise ValueError("row index exceeds matrix dimensions")
        for c in self.col:
            if not 0 <= c < self.shape[1]:
                raise ValueError("column index exceeds matrix dimensions")


def connected_components(csgraph, directed=True, connection="weak", return_labels=True):
    if not isinstance(csgraph, coo_array):
        raise OutsideModel("connected_components of a non-coo matrix")
    n, m = csgraph.shape
    if n != m:
        raise ValueError("graph should be a square array")
    adj = [[] for _ in range(n)]
    for v, r, c in zip(csgraph.data, csgraph.row, csgraph.col):
        if v != 0:
            adj[r].append(c)
            adj[c].append(r)  # weak connection: direction ignored
    labels = [-1] * n
    k = 0
    for s in range(n):
        if labels[s] != -1:
            continue
        labels[s] = k
        stack = [s]
        while stack:
            u = stack.pop()
            for w in adj[u]:
                if labels[w] == -1:
                    labels[w] = k
                    stack.append(w)
        k += 1
    return k, npl.ndarray(labels, (n,), npl.int32)


def _total(cost, rows, cols):
    t = 0
    for r, c in zip(rows, cols):
        t = t + cost[r, c]
    return t


def linear_sum_assignment(cost_matrix, maximize=False):
    if not isinstance(cost_matrix, npl.ndarray) or cost_matrix.ndim != 2:
        raise OutsideModel("linear_sum_assignment: expected a 2-D npl array")
    n, m = cost_matrix.shape
    k = min(n, m)
    cands = []
    if n <= m:
        for cols in itertools.permutations(range(m), k):
            cands.append((list(range(n)), list(cols)))
    else:
        for rows in itertools.combinations(range(n), k):
            for cols in itertools.permutations(range(m), k):
                cands.append((list(rows), list(cols)))
    if len(cands) == 1:
        rows, cols = cands[0]
    else:
        pick = _choose(len(cands))
        rows, cols = cands[pick]
        mine = _total(cost_matrix, rows, cols)
        for (r2, c2) in cands:
            other = _total(cost_matrix, r2, c2)
            if maximize:
                if other > mine:
                    _discard()
            else:
                if other < mine:
                    _discard()
    return npl.ndarray(rows, (k,), npl.int64), npl.ndarray(cols, (k,), npl.int64)


if MODEL:

    def _choose(n):
        """a solver-chosen index in range(n)"""
        from crosshair.core import proxy_for_type
        from crosshair.statespace import context_statespace
        from crosshair.tracers import NoTracing

        with NoTracing():
            space = context_statespace()
            v = proxy_for_type(int, "lsa_choice" + space.uniq(), allow_subtypes=False)
        if not (0 <= v < n):
            _discard()
        for i in range(n):  # concretise by forking
            if v == i:
                return i
        _discard()

    def _discard():
        from crosshair.util import IgnoreAttempt

        raise IgnoreAttempt("non-conforming library choice")

else:

    def _choose(n):  # pragma: no cover - real mode uses real scipy
        raise OutsideModel("scp model used in real mode")

    def _discard():
        raise OutsideModel("scp model used in real mode")


def stft(x, fs=1.0, window="hann", nperseg=256, noverlap=None, nfft=None, detrend=False, return_onesided=True,
         boundary="zeros", padded=True, axis=-1, scaling="spectrum"):
    """scipy.signal.stft by its documented contract for the time / frequency
    vectors and the output shape; the spectrum values are not modelled."""
    from models import xrl

    if nperseg < 1:
        raise ValueError("nperseg must be a positive integer")
    if noverlap is None:
        noverlap = nperseg // 2
    if noverlap >= nperseg:
        raise ValueError("noverlap must be less than nperseg.")
    if noverlap < 0:
        raise ValueError("noverlap must be non-negative")
    shape = list(x.shape)
    if axis < 0:
        axis += len(shape)
    n = shape[axis]
    nstep = nperseg - noverlap
    n_ext = n + (2 * (nperseg // 2) if boundary is not None else 0)
    if padded:
        n_ext += (-(n_ext - nperseg) % nstep) % nperseg
    n_frames = (n_ext - nperseg) // nstep + 1
    if n_frames < 0:
        n_frames = 0
    freqs = npl.ndarray([j * fs / nperseg for j in range(nperseg // 2 + 1)], (nperseg // 2 + 1,), npl.float64)
    times = npl.ndarray([i * nstep / fs for i in range(n_frames)], (n_frames,), npl.float64)
    out_shape = shape[:axis] + [nperseg // 2 + 1] + shape[axis + 1:] + [n_frames]
    return freqs, times, xrl.OpaqueData(out_shape)


def resample(x, num, t=None, axis=0, window=None, domain="time"):
    """scipy.signal.resample: `num` samples along axis; new_t[i] = t[0] + i*(t[1]-t[0])*len(t)/num"""
    from models import xrl

    shape = list(x.shape)
    n = shape[axis]
    shape[axis] = num
    y = xrl.OpaqueData(shape)
    if t is None:
        return y
    tl = t.tolist() if hasattr(t, "tolist") else list(t)
    new_t = npl.ndarray([tl[0] + i * (tl[1] - tl[0]) * n / num for i in range(num)], (num,), npl.float64)
    return y, new_t


signal = types.ModuleType("scipy.signal")
signal.stft = stft
signal.resample = resample

sparse = types.ModuleType("scipy.sparse")
sparse.coo_array = coo_array
csgraph = types.ModuleType("scipy.sparse.csgraph")
csgraph.connected_components = connected_components
sparse.csgraph = csgraph
optimize = types.ModuleType("scipy.optimize")
optimize.linear_sum_assignment = linear_sum_assignment
