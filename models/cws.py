"""Contract model of the crowsetta 4 classes soundevent reads and writes:
plain records with the attribute names used by the glue, plus crowsetta's own
documented argument checks (Segment.from_keyword pairing rules; BBox: all
values >= 0, onset < offset, low_freq < high_freq; Annotation: exactly one of
seq / bboxes, and an empty one is not stored as an attribute)."""

from __future__ import annotations

import types


class Segment:
    def __init__(self, label, onset_s, offset_s, onset_sample, offset_sample):
        self.label = label
        self.onset_s = onset_s
        self.offset_s = offset_s
        self.onset_sample = onset_sample
        self.offset_sample = offset_sample

    @classmethod
    def from_keyword(cls, label, onset_s=None, offset_s=None, onset_sample=None, offset_sample=None):
        if (onset_sample is None and offset_sample is None) and (onset_s is None and offset_s is None):
            raise ValueError("must provide either onset_sample and offset_sample, or onsets_s and offsets_s")
        if onset_sample and offset_sample is None:
            raise ValueError("onset_sample specified but offset_sample is None")
        if onset_sample is None and offset_sample:
            raise ValueError("offset_sample specified but onset_sample is None")
        if onset_s and offset_s is None:
            raise ValueError("onset_s specified but offset_s is None")
        if onset_s is None and offset_s:
            raise ValueError("offset_s specified but onset_s is None")
        return cls(label, onset_s, offset_s, onset_sample, offset_sample)


class BBox:
    def __init__(self, onset, offset, low_freq, high_freq, label):
        for v in (onset, offset, low_freq, high_freq):
            if v < 0.0:
                raise ValueError("All input values must be positive")
        if not onset < offset:
            raise ValueError("Bounding box onset must be less than offset.")
        if not low_freq < high_freq:
            raise ValueError("Low frequency of bounding box must be less than high frequency.")
        self.onset = onset
        self.offset = offset
        self.low_freq = low_freq
        self.high_freq = high_freq
        self.label = label


class Sequence:
    def __init__(self, segments):
        self._segments = tuple(segments)

    @classmethod
    def from_segments(cls, segments):
        for s in segments:
            if type(s) is not Segment:
                raise TypeError("A Sequence must be made from a list of Segments")
        return cls(segments)

    @property
    def segments(self):
        return self._segments


class Annotation:
    def __init__(self, annot_path, notated_path=None, seq=None, bboxes=None):
        if seq is None and bboxes is None:
            raise ValueError("an Annotation must have either a ``seq`` or ``bboxes``")
        if seq is not None and bboxes is not None:
            raise ValueError("an Annotation can have either a ``seq`` or ``bboxes``, but not both.")
        if seq is not None:
            if not isinstance(seq, Sequence):
                raise TypeError("``seq`` should be a ``crowsetta.Sequence``")
            self.seq = seq
        if bboxes:
            if not isinstance(bboxes, list):
                raise ValueError("``bboxes`` should be a list")
            self.bboxes = bboxes
        self.annot_path = annot_path
        self.notated_path = notated_path if notated_path else notated_path


crowsetta = types.ModuleType("crowsetta")
crowsetta.__version__ = "4.0.0.model"
crowsetta.Segment = Segment
crowsetta.BBox = BBox
crowsetta.Sequence = Sequence
crowsetta.Annotation = Annotation

FAKES = {"crowsetta": crowsetta}
