"""Contract model of rasterio.features.rasterize for axis-aligned rectangles
in pixel space (identity transform): cell (r, c) of an out_shape=(rows, cols)
raster covers [c, c+1] x [r, r+1]; it is burnt with the value of the LAST shape
whose interior contains its centre (c+0.5, r+0.5); other cells hold `fill`.
all_touched additionally burns cells the rectangle merely touches — WHICH of
the edge-adjacent cells GDAL burns is not specified here: the model lets the
solver choose, so only 'all_touched is a superset' can be concluded.
Anything that is not a rectangle raises OutsideModel (GDAL scan conversion)."""

from __future__ import annotations

import types

from vf.h import MODEL, OutsideModel

from models import npl, shp


def _choice():
    from crosshair.core import proxy_for_type
    from crosshair.statespace import context_statespace
    from crosshair.tracers import NoTracing

    with NoTracing():
        space = context_statespace()
        v = proxy_for_type(bool, "gdal_touch" + space.uniq(), allow_subtypes=False)
    return True if v else False


def rasterize(shapes, out_shape=None, fill=0, out=None, transform=None, all_touched=False, merge_alg=None,
              default_value=1, dtype=None):
    rows, cols = out_shape
    grid = [[fill for _ in range(cols)] for _ in range(rows)]
    for item in shapes:
        if isinstance(item, tuple):
            geom, val = item
        else:
            geom, val = item, default_value
        # a collection / multi-polygon is burnt part by part with the one value
        parts = list(geom.geoms) if isinstance(geom, (shp.GeometryCollection, shp.MultiPolygon)) else [geom]
        for part in parts:
            if not isinstance(part, shp.Polygon):
                raise OutsideModel("rasterize of a non-rectangle is GDAL scan conversion")
            r = part.rect()
            if r is None:
                raise OutsideModel("rasterize of a non-rectangle is GDAL scan conversion")
            x0, y0, x1, y1 = r
            for rr in range(rows):
                for cc in range(cols):
                    inside = (x0 < cc + 0.5) and (cc + 0.5 < x1) and (y0 < rr + 0.5) and (rr + 0.5 < y1)
                    if inside:
                        grid[rr][cc] = val
                    elif all_touched:
                        touches = (x0 <= cc + 1) and (cc <= x1) and (y0 <= rr + 1) and (rr <= y1)
                        if touches and _choice():
                            grid[rr][cc] = val
    return npl.ndarray(grid, (rows, cols), dtype)


features = types.ModuleType("rasterio.features")
features.rasterize = rasterize
