"""numpy-lite: contract model of the small slice of numpy that soundevent's
evaluation / matching glue uses, over plain Python lists so that symbolic
scalars flow through unrealised.

Stated contract: documented shape rules of zeros / array / c_ / eye / stack /
indexing / assignment / sum / argmax (first maximum) / mean / isnan / T;
dtype storage is the identity (float32 rounding of stored scores is outside
the claim); anything else raises OutsideModel.
"""

from __future__ import annotations

import types

from vf.h import OutsideModel


class dtype_marker:
    def __init__(self, name, kind):
        self.name = name
        self.kind = kind

    def __repr__(self):
        return "npl." + self.name

    def __call__(self, x):
        return x


float32 = dtype_marker("float32", "f")
float64 = dtype_marker("float64", "f")
int8 = dtype_marker("int8", "i")
int32 = dtype_marker("int32", "i")
int64 = dtype_marker("int64", "i")
bool_ = dtype_marker("bool_", "b")
newaxis = None
nan = float("nan")
inf = float("inf")


def _shape_of(x):
    if isinstance(x, ndarray):
        return x.shape
    if isinstance(x, (list, tuple)):
        if len(x) == 0:
            return (0,)
        return (len(x),) + _shape_of(x[0])
    return ()


def _tolist(x):
    if isinstance(x, ndarray):
        return x.tolist()
    if isinstance(x, (list, tuple)):
        return [_tolist(e) for e in x]
    return x


class ndarray:
    """1-D or 2-D array over a nested Python list (row major)."""

    def __init__(self, data, shape=None, dtype=None):
        self._d = data  # list (1-D) or list of lists (2-D) or scalar (0-D)
        self._shape = tuple(shape) if shape is not None else _shape_of(data)
        self.dtype = dtype

    # -- basic attributes
    @property
    def shape(self):
        return self._shape

    @property
    def ndim(self):
        return len(self._shape)

    @property
    def size(self):
        n = 1
        for s in self._shape:
            n *= s
        return n

    def __len__(self):
        if not self._shape:
            raise TypeError("len() of unsized object")
        return self._shape[0]

    def tolist(self):
        if self.ndim == 2:
            return [list(r) for r in self._d]
        if self.ndim == 1:
            return list(self._d)
        return self._d

    def __iter__(self):
        if self.ndim == 2:
            return iter([ndarray(list(r), (self._shape[1],), self.dtype) for r in self._d])
        return iter(list(self._d))

    def astype(self, dtype):
        d = self.tolist()
        kind = getattr(dtype, "kind", None)
        if kind == "f":
            conv = lambda v: nan if v is None else v  # noqa: E731  numpy: None -> nan
        elif kind == "i":
            conv = lambda v: int(v) if isinstance(v, float) and v == v else v  # noqa: E731
        else:
            conv = lambda v: v  # noqa: E731
        if self.ndim == 1:
            d = [conv(v) for v in d]
        elif self.ndim == 2:
            d = [[conv(v) for v in r] for r in d]
        return ndarray(d, self._shape, dtype)

    def copy(self):
        return ndarray(self.tolist(), self._shape, self.dtype)

    @property
    def T(self):
        if self.ndim < 2:
            return self
        r, c = self._shape
        return ndarray([[self._d[i][j] for i in range(r)] for j in range(c)], (c, r), self.dtype)

    # -- indexing
    def _norm(self, i, n):
        if i < 0:
            i += n
        if not 0 <= i < n:
            raise IndexError("index %r out of bounds for axis of size %r" % (i, n))
        return i

    def __getitem__(self, key):
        if self.ndim == 1:
            if isinstance(key, tuple):
                if len(key) == 2 and key[0] is None and key[1] == slice(None):
                    return ndarray([list(self._d)], (1, self._shape[0]), self.dtype)
                if len(key) == 1:
                    key = key[0]
                else:
                    raise IndexError("too many indices")
            if isinstance(key, slice):
                d = self._d[key]
                return ndarray(d, (len(d),), self.dtype)
            if isinstance(key, ndarray):
                return self._mask_or_take(key)
            if isinstance(key, list):
                return self._mask_or_take(ndarray(key))
            return self._d[self._norm(key, self._shape[0])]
        if self.ndim == 2:
            if isinstance(key, tuple):
                if len(key) != 2:
                    raise IndexError("too many indices")
                i, j = key
                if isinstance(i, ndarray) and isinstance(j, ndarray) and i.ndim == 2 and j.ndim == 2:
                    # open mesh (np.ix_): rows x columns selection
                    ri = [self._norm(r[0], self._shape[0]) for r in i._d]
                    cj = [self._norm(c, self._shape[1]) for c in (j._d[0] if j._d else [])]
                    sub = [[self._d[r][c] for c in cj] for r in ri]
                    return ndarray(sub, (len(ri), len(cj)), self.dtype)
                if isinstance(i, slice) or isinstance(j, slice):
                    rows = self._d[i] if isinstance(i, slice) else [self._d[self._norm(i, self._shape[0])]]
                    if isinstance(j, slice):
                        sub = [r[j] for r in rows]
                    else:
                        sub = [[r[self._norm(j, self._shape[1])]] for r in rows]
                    if not isinstance(i, slice):
                        return ndarray(sub[0], (len(sub[0]),), self.dtype)
                    if not isinstance(j, slice):
                        return ndarray([r[0] for r in sub], (len(sub),), self.dtype)
                    return ndarray(sub, (len(sub), len(sub[0]) if sub else 0), self.dtype)
                return self._d[self._norm(i, self._shape[0])][self._norm(j, self._shape[1])]
            if isinstance(key, slice):
                d = self._d[key]
                return ndarray(d, (len(d), self._shape[1]), self.dtype)
            if isinstance(key, ndarray):
                return self._mask_or_take(key)
            return ndarray(list(self._d[self._norm(key, self._shape[0])]), (self._shape[1],), self.dtype)
        raise IndexError("0-d array")

    def _mask_or_take(self, key):
        ks = key.tolist()
        if key.ndim == 2:
            # numpy: a 2-D boolean mask on a 2-D array selects ELEMENTS and returns them flattened
            if self.ndim != 2 or key.shape != self.shape:
                raise IndexError("boolean index did not match indexed array")
            out = [x for r, kr in zip(self._d, ks) for x, k in zip(r, kr) if k]
            return ndarray(out, (len(out),), self.dtype)
        rows = self._d
        if key.dtype is bool_ or (ks and isinstance(ks[0], bool)):
            if len(ks) != self._shape[0]:
                raise IndexError("boolean index did not match")
            out = [r for r, k in zip(rows, ks) if k]
        else:
            out = [rows[self._norm(k, self._shape[0])] for k in ks]
        if self.ndim == 2:
            return ndarray([list(r) for r in out], (len(out), self._shape[1]), self.dtype)
        return ndarray(out, (len(out),), self.dtype)

    def __setitem__(self, key, value):
        if self.ndim == 1:
            if isinstance(key, tuple) and len(key) == 1:
                key = key[0]
            if isinstance(key, slice):
                idx = range(*key.indices(self._shape[0]))
                for i in idx:
                    self._d[i] = value
                return
            self._d[self._norm(key, self._shape[0])] = value
            return
        if self.ndim == 2 and isinstance(key, tuple) and len(key) == 2:
            i, j = key
            ri = range(*i.indices(self._shape[0])) if isinstance(i, slice) else [self._norm(i, self._shape[0])]
            rj = range(*j.indices(self._shape[1])) if isinstance(j, slice) else [self._norm(j, self._shape[1])]
            for a in ri:
                for b in rj:
                    self._d[a][b] = value
            return
        raise OutsideModel("npl: unsupported assignment %r" % (key,))

    # -- reductions
    def sum(self, axis=None, keepdims=False):
        if self.ndim == 1:
            t = 0
            for x in self._d:
                t = t + x
            return t
        if axis is None:
            t = 0
            for r in self._d:
                for x in r:
                    t = t + x
            return t
        if axis in (1, -1):
            out = []
            for r in self._d:
                t = 0
                for x in r:
                    t = t + x
                out.append(t)
            if keepdims:
                return ndarray([[t] for t in out], (len(out), 1), self.dtype)
            return ndarray(out, (len(out),), self.dtype)
        if axis == 0:
            out = []
            for j in range(self._shape[1]):
                t = 0
                for r in self._d:
                    t = t + r[j]
                out.append(t)
            if keepdims:
                return ndarray([out], (1, len(out)), self.dtype)
            return ndarray(out, (len(out),), self.dtype)
        raise OutsideModel("npl.sum axis")

    def argmax(self, axis=None):
        def am(row):
            if not row:
                raise ValueError("attempt to get argmax of an empty sequence")
            best = 0
            for k in range(1, len(row)):
                if row[k] > row[best]:
                    best = k
            return best

        if self.ndim == 1:
            return am(self._d)
        if axis in (1, -1):
            out = [am(r) for r in self._d]
            return ndarray(out, (len(out),), int64)
        if axis == 0:
            out = [am([r[j] for r in self._d]) for j in range(self._shape[1])]
            return ndarray(out, (len(out),), int64)
        raise OutsideModel("npl.argmax axis")

    def mean(self, axis=None):
        return mean(self, axis)

    def all(self):
        for x in (self._d if self.ndim == 1 else [y for r in self._d for y in r]):
            if not x:
                return False
        return True

    def any(self, axis=None):
        if axis in (1, -1) and self.ndim == 2:
            out = []
            for r in self._d:
                hit = False
                for x in r:
                    if x:
                        hit = True
                out.append(hit)
            return ndarray(out, (len(out),), bool_)
        for x in (self._d if self.ndim == 1 else [y for r in self._d for y in r]):
            if x:
                return True
        return False

    def min(self):
        from vf import sym

        return sym.lo(self._d if self.ndim == 1 else [y for r in self._d for y in r])

    def max(self):
        from vf import sym

        return sym.hi(self._d if self.ndim == 1 else [y for r in self._d for y in r])

    def item(self):
        return self._d

    # -- elementwise
    def _ew(self, other, f):
        if isinstance(other, (list, tuple)) and self.ndim == 2 and len(other) == self._shape[1]:
            # broadcasting a row over the last axis
            return ndarray([[f(x, o) for x, o in zip(r, other)] for r in self._d], self._shape)
        if isinstance(other, ndarray):
            if other.shape != self.shape:
                if self.ndim == 2 and other.shape == (self._shape[0], 1):
                    return ndarray([[f(x, o[0]) for x in r] for r, o in zip(self._d, other._d)], self._shape)
                raise OutsideModel("npl: broadcasting %r with %r" % (self.shape, other.shape))
            if self.ndim == 1:
                return ndarray([f(x, y) for x, y in zip(self._d, other._d)], self._shape)
            return ndarray([[f(x, y) for x, y in zip(r, s)] for r, s in zip(self._d, other._d)], self._shape)
        if self.ndim == 1:
            return ndarray([f(x, other) for x in self._d], self._shape)
        if self.ndim == 2:
            return ndarray([[f(x, other) for x in r] for r in self._d], self._shape)
        return f(self._d, other)

    def __add__(self, o):
        return self._ew(o, lambda a, b: a + b)

    __radd__ = __add__

    def __sub__(self, o):
        return self._ew(o, lambda a, b: a - b)

    def __rsub__(self, o):
        return self._ew(o, lambda a, b: b - a)

    def __mul__(self, o):
        return self._ew(o, lambda a, b: a * b)

    __rmul__ = __mul__

    def __truediv__(self, o):
        return self._ew(o, lambda a, b: a / b)

    def __gt__(self, o):
        r = self._ew(o, lambda a, b: a > b)
        r.dtype = bool_
        return r

    def __ge__(self, o):
        r = self._ew(o, lambda a, b: a >= b)
        r.dtype = bool_
        return r

    def __lt__(self, o):
        r = self._ew(o, lambda a, b: a < b)
        r.dtype = bool_
        return r

    def __le__(self, o):
        r = self._ew(o, lambda a, b: a <= b)
        r.dtype = bool_
        return r

    def __invert__(self):
        r = self._ew(None, lambda a, b: not a)
        r.dtype = bool_
        return r

    def __eq__(self, o):  # numpy semantics: elementwise
        r = self._ew(o, lambda a, b: a == b)
        r.dtype = bool_
        return r

    __hash__ = None

    def __repr__(self):
        return "npl.array(%r)" % (self.tolist(),)


def zeros(shape, dtype=None):
    if isinstance(shape, int):
        shape = (shape,)
    shape = tuple(shape)
    z = 0 if (dtype is not None and getattr(dtype, "kind", "f") == "i") else 0.0
    if len(shape) == 1:
        return ndarray([z for _ in range(shape[0])], shape, dtype)
    if len(shape) == 2:
        return ndarray([[z for _ in range(shape[1])] for _ in range(shape[0])], shape, dtype)
    raise OutsideModel("npl.zeros ndim > 2")


def array(obj, dtype=None):
    if isinstance(obj, ndarray):
        return ndarray(obj.tolist(), obj.shape, dtype or obj.dtype)
    d = _tolist(obj)
    return ndarray(d, _shape_of(d), dtype)


asarray = array


def eye(n):
    return ndarray([[1.0 if i == j else 0.0 for j in range(n)] for i in range(n)], (n, n), float64)


def stack(arrays, axis=0):
    rows = [a.tolist() if isinstance(a, ndarray) else list(a) for a in arrays]
    if not rows:
        raise ValueError("need at least one array to stack")
    if axis == 0:
        return ndarray(rows, (len(rows), len(rows[0])), None)
    if axis in (1, -1):
        n = len(rows[0])
        for r in rows:
            if len(r) != n:
                raise ValueError("all input arrays must have the same shape")
        return ndarray([[r[i] for r in rows] for i in range(n)], (n, len(rows)), None)
    raise OutsideModel("npl.stack axis")


def ix_(rows, cols):
    """open mesh of two index vectors: (n,1) and (1,m) integer arrays"""
    r = rows.tolist() if isinstance(rows, ndarray) else list(rows)
    c = cols.tolist() if isinstance(cols, ndarray) else list(cols)
    return (ndarray([[x] for x in r], (len(r), 1), int64), ndarray([list(c)], (1, len(c)), int64))


def where(cond, a, b):
    from vf import sym

    c = cond.tolist() if isinstance(cond, ndarray) else list(cond)

    def at(x, i):
        if isinstance(x, ndarray):
            return x.tolist()[i]
        return x

    out = [(at(a, i) if c[i] else at(b, i)) for i in range(len(c))]
    return ndarray(out, (len(out),), None)


def clip(a, lo, hi):
    d = a.tolist() if isinstance(a, ndarray) else list(a)
    out = [lo if x < lo else (hi if x > hi else x) for x in d]
    return ndarray(out, (len(out),), None)


def isnan(a):
    if isinstance(a, ndarray):
        r = a._ew(None, lambda x, _: x != x)
        r.dtype = bool_
        return r
    return a != a


def mean(a, axis=None):
    if isinstance(a, ndarray):
        a = a.tolist()
    if axis is not None:
        raise OutsideModel("npl.mean axis")
    a = list(a)
    if a and isinstance(a[0], list):
        a = [x for r in a for x in r]
    if not a:
        return nan  # numpy: mean of empty slice is nan (with a RuntimeWarning)
    t = 0
    for x in a:
        t = t + x
    return t / len(a)


def exp(x):
    from models.skl import Opaque

    if isinstance(x, Opaque):
        return Opaque("exp", x)
    import math

    return math.exp(x)


class _C:
    def __getitem__(self, key):
        parts = key if isinstance(key, tuple) else (key,)
        cols = []
        n = None
        for p in parts:
            if not isinstance(p, ndarray):
                p = array(p)
            if p.ndim == 1:
                p = ndarray([[x] for x in p._d], (p.shape[0], 1), p.dtype)
            if n is None:
                n = p.shape[0]
            elif p.shape[0] != n:
                raise ValueError("all the input array dimensions except for the concatenation axis must match")
            cols.append(p)
        rows = []
        for i in range(n or 0):
            r = []
            for p in cols:
                r.extend(p._d[i])
            rows.append(r)
        return ndarray(rows, (n or 0, sum(p.shape[1] for p in cols)), None)


c_ = _C()


ARANGE_MAX = 12  # unwinding bound for a symbolic arange length


def arange(start=None, stop=None, step=1, dtype=None):
    """numpy's documented contract: ceil((stop - start)/step) elements,
    element i = start + i*step (numpy computes start + i*delta with
    delta = (start+step)-start; identical in exact arithmetic).  A symbolic
    length is concretised by forking up to ARANGE_MAX; longer => path
    discarded (the harness states the bound)."""
    import math

    if stop is None:
        start, stop = 0, start
    if all(isinstance(x, int) and type(x) is int for x in (start, stop, step)):
        d = list(range(start, stop, step))
        return ndarray(d, (len(d),), dtype or int64)
    n = math.ceil((stop - start) / step)
    k = None
    if n <= 0:
        k = 0
    else:
        for cand in range(1, ARANGE_MAX + 1):
            if n == cand:
                k = cand
                break
    if k is None:
        _discard()
    d = [start + i * step for i in range(k)]
    return ndarray(d, (k,), dtype or float64)


def _discard():
    from vf.h import MODEL

    if MODEL:
        from crosshair.util import IgnoreAttempt

        raise IgnoreAttempt("arange longer than the unwinding bound")
    raise OutsideModel("npl.arange beyond bound")


def concatenate(arrays, axis=0):
    out = []
    for a in arrays:
        out.extend(a.tolist() if isinstance(a, ndarray) else list(a))
    return ndarray(out, (len(out),), None)


def diff(a):
    d = a.tolist() if isinstance(a, ndarray) else list(a)
    out = [d[i + 1] - d[i] for i in range(len(d) - 1)]
    return ndarray(out, (len(out),), float64)


def isclose(a, b, rtol=1e-05, atol=1e-08):
    def f(x, y):
        dlt = x - y
        if dlt < 0:
            dlt = -dlt
        ay = y if y >= 0 else -y
        return dlt <= atol + rtol * ay

    if isinstance(a, ndarray):
        r = a._ew(b, f)
        r.dtype = bool_
        return r
    return f(a, b)


def ceil(x):
    import math

    if isinstance(x, ndarray):
        return x._ew(None, lambda v, _: math.ceil(v))
    return math.ceil(x)


def floor(x):
    import math

    if isinstance(x, ndarray):
        return x._ew(None, lambda v, _: math.floor(v))
    return math.floor(x)


def abs(x):  # noqa: A001 - numpy name
    from models.xrl import OpaqueData

    if isinstance(x, OpaqueData):
        return _OpaqueOps(x.shape)
    if isinstance(x, ndarray):
        return x._ew(None, lambda v, _: v if v >= 0 else -v)
    return x if x >= 0 else -x


class _OpaqueOps:
    """values not modelled; supports the shape-only operations the glue applies"""

    def __init__(self, shape):
        self.shape = tuple(shape)
        self.ndim = len(self.shape)
        self.dtype = None

    def __pow__(self, k):
        return self


def swapaxes(a, i, j):
    from models.xrl import OpaqueData

    shape = list(a.shape)
    shape[i], shape[j] = shape[j], shape[i]
    return OpaqueData(shape)


def _module():
    import numpy as _real

    m = types.ModuleType("numpy")
    g = globals()
    for name in ("ndarray", "zeros", "array", "asarray", "eye", "stack", "isnan", "mean", "exp", "c_", "arange",
                 "concatenate", "diff", "isclose", "floor", "ceil", "abs", "swapaxes", "where", "clip", "ix_",
                 "float32", "float64", "int8", "int32", "int64", "bool_", "newaxis", "nan", "inf"):
        setattr(m, name, g[name])
    m.typing = _real.typing  # annotations only
    return m


numpy = _module()
FAKES = {"numpy": numpy}
