"""Contract model of soundfile.SoundFile as used by soundevent.audio.io:
a file is (frames N x channels C, samplerate).  seek(offset) positions the
read pointer (offset > N fails, as libsndfile does); read(frames=k,
always_2d=True, fill_value=v) returns k rows — row i is the file's frame
offset+i, or v beyond the end; frames=-1 reads to the end."""

from __future__ import annotations

import types

from models import npl

FILES = {}


class LibsndfileError(RuntimeError):
    pass


class SoundFile:
    def __init__(self, path, mode="r", **kw):
        key = str(path)
        if key not in FILES:
            raise LibsndfileError("Error opening %r: System error." % key)
        self._rows, self.samplerate = FILES[key]
        self._pos = 0

    def __enter__(self):
        return self

    def __exit__(self, *a):
        return False

    def seek(self, frames, whence=0):
        if frames < 0 or frames > len(self._rows):
            raise LibsndfileError("Internal psf_fseek() failed.")
        self._pos = frames
        return frames

    def read(self, frames=-1, dtype="float64", always_2d=False, fill_value=None, out=None):
        n = len(self._rows)
        c = len(self._rows[0]) if self._rows else 1
        if frames < 0:
            frames = n - self._pos
        out_rows = []
        for i in range(frames):
            j = self._pos + i
            if j < n:
                out_rows.append(list(self._rows[j]))
            elif fill_value is not None:
                out_rows.append([fill_value] * c)
            else:
                break
        self._pos = min(n, self._pos + frames)
        return npl.ndarray(out_rows, (len(out_rows), c), None)


soundfile = types.ModuleType("soundfile")
soundfile.SoundFile = SoundFile
soundfile.LibsndfileError = LibsndfileError
