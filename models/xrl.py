"""xarray-lite: contract model of the slice of xarray soundevent's array glue
uses, over npl arrays.

Stated contract (validated by differential replay on real xarray/pandas):
* DataArray(data, dims, coords): a coordinate whose length differs from the
  data's size along its dimension raises (CoordinateValidationError, a
  ValueError);
* ``.indexes[dim]``: min / max of the labels; ``get_slice_bound(v, "right")``
  = number of labels <= v (sorted index), ``"left"`` = number of labels < v;
* ``.sel({dim: slice(a, b)})`` on a sorted index is label-based and inclusive
  at both ends; ``.sel({dim: labels})`` selects exactly those labels (KeyError
  if absent); data stay attached to their labels; coordinate attrs are kept;
* ``.reindex({dim: labels}, fill_value)`` matches labels by exact equality and
  fills everything else; coordinate attrs are kept;
* ``.data[...] = v`` writes through.
"""

from __future__ import annotations

import types

from vf.h import OutsideModel

from models import npl


class CoordinateValidationError(ValueError):
    pass


def _as_list(x):
    if isinstance(x, Variable):
        return x.data.tolist()
    if isinstance(x, npl.ndarray):
        return x.tolist()
    return list(x)


class Variable:
    def __init__(self, dims, data, attrs=None):
        self.dims = (dims,) if isinstance(dims, str) else tuple(dims)
        self.data = data if isinstance(data, npl.ndarray) else npl.array(list(data))
        self.attrs = dict(attrs or {})

    @property
    def values(self):
        return self.data

    @property
    def size(self):
        return len(self.data)

    @property
    def dtype(self):
        return self.data.dtype

    def min(self):
        return self.data.min()

    def max(self):
        return self.data.max()

    def __len__(self):
        return len(self.data)


class Index:
    def __init__(self, labels):
        self._l = list(labels)

    def min(self):
        from vf import sym

        return sym.lo(self._l)

    def max(self):
        from vf import sym

        return sym.hi(self._l)

    def get_slice_bound(self, value, side):
        n = 0
        for x in self._l:
            if (x <= value) if side == "right" else (x < value):
                n += 1
            else:
                break
        return n

    def searchsorted(self, value, side="left"):
        """numpy/pandas searchsorted on a sorted index: number of labels < v (left) / <= v (right)"""
        def one(v):
            n = 0
            for x in self._l:
                if (x < v) if side == "left" else (x <= v):
                    n += 1
                else:
                    break
            return n

        if isinstance(value, npl.ndarray):
            out = [one(v) for v in value.tolist()]
            return npl.ndarray(out, (len(out),), npl.int64)
        if isinstance(value, (list, tuple)):
            out = [one(v) for v in value]
            return npl.ndarray(out, (len(out),), npl.int64)
        return one(value)

    def __len__(self):
        return len(self._l)

    def __getitem__(self, i):
        # pandas.Index positional access (integers, negative from the end; IndexError outside)
        if isinstance(i, slice):
            return Index(self._l[i])
        if hasattr(i, "pick"):  # symbolic integer of the IEEE search: fork over the valid positions
            k = i.pick(-len(self._l), len(self._l) - 1)
            if k is None:
                raise IndexError("index out of bounds")
            return self._l[k]
        return self._l[i.__index__()]

    def __iter__(self):
        return iter(self._l)


class _Coords:
    def __init__(self, arr):
        self._a = arr

    def __getitem__(self, dim):
        return self._a._coords[dim]

    def __contains__(self, dim):
        return dim in self._a._coords

    def keys(self):
        return self._a._coords.keys()

    def items(self):
        return self._a._coords.items()

    def __iter__(self):
        return iter(self._a._coords)

    def __len__(self):
        return len(self._a._coords)


class _Indexes:
    def __init__(self, arr):
        self._a = arr

    def __getitem__(self, dim):
        return Index(self._a._coords[dim].data.tolist())


class OpaqueData:
    """array whose values are not modelled (FFT output etc.): only its shape"""

    def __init__(self, shape):
        self.shape = tuple(shape)
        self.ndim = len(self.shape)
        self.dtype = None


class DataArray:
    def __init__(self, data=None, dims=None, coords=None, attrs=None, name=None):
        if not isinstance(data, (npl.ndarray, OpaqueData)):
            data = npl.array(data)
        self.data = data
        self.dims = (dims,) if isinstance(dims, str) else tuple(dims)
        if len(self.dims) != data.ndim:
            raise ValueError("different number of dimensions on data and dims")
        self._coords = {}
        for k, v in dict(coords or {}).items():
            if isinstance(v, Variable):
                var = Variable(v.dims, v.data, v.attrs)
            elif isinstance(v, range):
                var = Variable((k,), npl.array(list(v)), {})
            else:
                var = Variable((k,), npl.array(_as_list(v)), {})
            if k in self.dims:
                ax = self.dims.index(k)
                if len(var.data) != data.shape[ax]:
                    raise CoordinateValidationError(
                        "conflicting sizes for dimension %r: length %d on the data but length %d on coordinate"
                        % (k, data.shape[ax], len(var.data)))
            self._coords[k] = var
        self.attrs = dict(attrs or {})
        self.name = name

    @property
    def coords(self):
        return _Coords(self)

    @property
    def values(self):
        return self.data

    def __getattr__(self, name):
        c = self.__dict__.get("_coords", {})
        if name in c:
            return c[name]
        raise AttributeError(name)

    @property
    def indexes(self):
        return _Indexes(self)

    @property
    def sizes(self):
        return {d: s for d, s in zip(self.dims, self.data.shape)}

    @property
    def shape(self):
        return self.data.shape

    @property
    def ndim(self):
        return self.data.ndim

    @property
    def dtype(self):
        return self.data.dtype

    def get_axis_num(self, dim):
        if dim not in self.dims:
            raise ValueError("%r not found in array dimensions %r" % (dim, self.dims))
        return self.dims.index(dim)

    # -- selection helpers
    def _take(self, dim, positions, new_labels=None, fill=None):
        """new DataArray holding, along dim, the slices at `positions` (None = fill)"""
        ax = self.get_axis_num(dim)
        d = self.data
        if d.ndim == 1:
            rows = [d.tolist()[p] if p is not None else fill for p in positions]
            nd = npl.ndarray(rows, (len(rows),), d.dtype)
        elif d.ndim == 2:
            full = d.tolist()
            r, c = d.shape
            if ax == 0:
                rows = [list(full[p]) if p is not None else [fill] * c for p in positions]
                nd = npl.ndarray(rows, (len(rows), c), d.dtype)
            else:
                rows = [[full[i][p] if p is not None else fill for p in positions] for i in range(r)]
                nd = npl.ndarray(rows, (r, len(positions)), d.dtype)
        else:
            raise OutsideModel("xrl: ndim > 2")
        coords = {}
        for k, v in self._coords.items():
            if k == dim:
                old = v.data.tolist()
                labels = new_labels if new_labels is not None else [old[p] for p in positions]
                coords[k] = Variable(v.dims, npl.ndarray(list(labels), (len(labels),), v.data.dtype), dict(v.attrs))
            else:
                coords[k] = v
        return DataArray(nd, self.dims, coords, self.attrs, self.name)

    def sel(self, indexers=None, **kw):
        indexers = dict(indexers or {}, **kw)
        out = self
        for dim, key in indexers.items():
            labels = out._coords[dim].data.tolist()
            if isinstance(key, slice):
                if key.step is not None:
                    raise OutsideModel("xrl.sel slice with step")
                lo, hi = key.start, key.stop
                pos = [i for i, x in enumerate(labels)
                       if (lo is None or x >= lo) and (hi is None or x <= hi)]
                out = out._take(dim, pos)
            else:
                want = _as_list(key)
                pos = []
                for w in want:
                    hit = None
                    for i, x in enumerate(labels):
                        if x == w:
                            hit = i
                            break
                    if hit is None:
                        raise KeyError(w)
                    pos.append(hit)
                out = out._take(dim, pos)
        return out

    def reindex(self, indexers=None, fill_value=float("nan"), **kw):
        indexers = dict(indexers or {}, **kw)
        out = self
        for dim, new in indexers.items():
            labels = out._coords[dim].data.tolist()
            new = _as_list(new)
            pos = []
            for w in new:
                hit = None
                for i, x in enumerate(labels):
                    if x == w:
                        hit = i
                        break
                pos.append(hit)
            out = out._take(dim, pos, new_labels=new, fill=fill_value)
        return out

    def min(self):
        return self.data.min()

    def max(self):
        return self.data.max()


xarray = types.ModuleType("xarray")
xarray.DataArray = DataArray
xarray.Variable = Variable
xarray.CoordinateValidationError = CoordinateValidationError
