"""Contract model of the slice of shapely 2 that soundevent's glue relies on.

Stated contract (trusted base; validated by differential replay of every
solver witness on real shapely/GEOS):

* constructors keep their coordinates and their kind;
* ``.bounds`` = (min x, min y, max x, max y) over the coordinates of the
  geometry (for a polygon: over its *shell*, as GEOS does);
* ``box(a, b, c, d)`` is the rectangle with corners (a,b),(c,d);
* ``.area`` / ``.intersection`` ONLY for axis-aligned rectangles;
* ``shapely.transform(g, f)`` maps ``f`` over the (N, 2) coordinate block of
  each component and keeps the kind;
* ``.geoms`` of a multi-geometry has one member per part.

Everything computed by GEOS proper (buffer, clip_by_rect, centroid,
point_on_surface, general intersection/area, to_geojson of those) raises
``OutsideModel``: clauses that are *about* GEOS output are outside the claim.
"""

from __future__ import annotations

import types

from vf import sym as _sym
from vf.h import OutsideModel


def _pt(p):
    p = list(p)
    if len(p) != 2:
        raise ValueError("shapely model: a coordinate must have 2 values")
    return (p[0], p[1])


def _pts(ps):
    return [_pt(p) for p in ps]


def _bounds(pts):
    if not pts:
        raise OutsideModel("bounds of an empty geometry")
    xs = [p[0] for p in pts]
    ys = [p[1] for p in pts]
    return (_sym.lo(xs), _sym.lo(ys), _sym.hi(xs), _sym.hi(ys))


class Geometry:
    geom_type = "Geometry"

    def _all_points(self):
        raise NotImplementedError

    @property
    def bounds(self):
        return _bounds(self._all_points())

    @property
    def centroid(self):
        raise OutsideModel("centroid is computed by GEOS")

    @property
    def area(self):
        raise OutsideModel("area of a general geometry is computed by GEOS")

    def intersection(self, other):
        raise OutsideModel("general intersection is computed by GEOS")

    def buffer(self, *a, **k):
        raise OutsideModel("buffer is computed by GEOS")


class Point(Geometry):
    geom_type = "Point"

    def __init__(self, *args):
        if len(args) == 1:
            self._p = _pt(args[0])
        else:
            self._p = _pt(args)

    @property
    def coords(self):
        return [self._p]

    @property
    def x(self):
        return self._p[0]

    @property
    def y(self):
        return self._p[1]

    def _all_points(self):
        return [self._p]

    def _map(self, f):
        return Point(_apply(f, [self._p])[0])


class LineString(Geometry):
    geom_type = "LineString"

    def __init__(self, coordinates):
        self._pts = _pts(coordinates)
        if len(self._pts) == 1:
            raise ValueError("LineStrings must have at least 2 coordinate tuples")

    @property
    def coords(self):
        return list(self._pts)

    def _all_points(self):
        return self._pts

    def _map(self, f):
        return LineString(_apply(f, self._pts))


class Polygon(Geometry):
    geom_type = "Polygon"

    def __init__(self, shell=None, holes=None, _box=None):
        self._shell = _pts(shell or [])
        self._holes = [_pts(hh) for hh in (holes or [])]
        self._box = _box  # (x0, y0, x1, y1) as given, when built by box()

    @property
    def exterior(self):
        return types.SimpleNamespace(coords=_closed(self._shell))

    @property
    def interiors(self):
        return [types.SimpleNamespace(coords=_closed(hh)) for hh in self._holes]

    def _all_points(self):
        if self._box is not None:
            a, b, c, d = self._box
            return [(a, b), (c, d)]
        return self._shell

    def _map(self, f):
        shell = _apply(f, self._shell)
        holes = [_apply(f, hh) for hh in self._holes]
        p = Polygon(shell, holes)
        if self._box is not None:
            # image of the four corners; still a rectangle iff f is separable,
            # which rect() checks concretely
            p._box_img = shell
        return p

    def rect(self):
        """(x0, y0, x1, y1) normalised if this polygon is an axis-aligned
        rectangle the model knows about, else None."""
        if self._box is not None:
            a, b, c, d = self._box
            return (_sym.fmin(a, c), _sym.fmin(b, d), _sym.fmax(a, c), _sym.fmax(b, d))
        img = getattr(self, "_box_img", None)
        if img is not None:
            # corners in box() order: (x1,y0),(x1,y1),(x0,y1),(x0,y0)
            (ax, ay), (bx, by), (cx, cy), (dx, dy) = img[:4]
            if ax == bx and cx == dx and ay == dy and by == cy:
                return (_sym.fmin(cx, ax), _sym.fmin(ay, by), _sym.fmax(cx, ax), _sym.fmax(ay, by))
        return None

    @property
    def area(self):
        r = self.rect()
        if r is None:
            raise OutsideModel("area of a non-rectangle is computed by GEOS")
        return (r[2] - r[0]) * (r[3] - r[1])

    def intersection(self, other):
        r = self.rect()
        s = other.rect() if isinstance(other, Polygon) else None
        if r is None or s is None:
            raise OutsideModel("general intersection is computed by GEOS")
        # state-merged: one expression instead of a path per ordering
        w = _sym.fmax(0, _sym.fmin(r[2], s[2]) - _sym.fmax(r[0], s[0]))
        hgt = _sym.fmax(0, _sym.fmin(r[3], s[3]) - _sym.fmax(r[1], s[1]))
        return _RectIntersection(w * hgt)


class _RectIntersection(Geometry):
    """intersection of two axis-aligned rectangles: only its area is stated"""

    geom_type = "Polygon"

    def __init__(self, area):
        self._area = area

    @property
    def area(self):
        return self._area

    @property
    def bounds(self):
        raise OutsideModel("bounds of an intersection")


class _Empty(Geometry):
    geom_type = "Polygon"
    is_empty = True

    @property
    def area(self):
        return 0.0

    @property
    def bounds(self):
        raise OutsideModel("bounds of empty geometry")


def _closed(pts):
    pts = list(pts)
    if pts and pts[0] != pts[-1]:
        pts.append(pts[0])
    return pts


class _Multi(Geometry):
    def __init__(self, parts):
        self.geoms = list(parts)

    def _all_points(self):
        out = []
        for g in self.geoms:
            out.extend(g._all_points())
        return out

    def _map(self, f):
        new = type(self).__new__(type(self))
        new.geoms = [g._map(f) for g in self.geoms]
        return new


class MultiPoint(_Multi):
    geom_type = "MultiPoint"

    def __init__(self, points):
        super().__init__([p if isinstance(p, Point) else Point(p) for p in points])


class MultiLineString(_Multi):
    geom_type = "MultiLineString"

    def __init__(self, lines):
        super().__init__([ln if isinstance(ln, LineString) else LineString(ln) for ln in lines])


class MultiPolygon(_Multi):
    geom_type = "MultiPolygon"

    def __init__(self, polygons):
        parts = []
        for p in polygons:
            if isinstance(p, Polygon):
                parts.append(p)
            else:
                parts.append(Polygon(p[0], p[1] if len(p) > 1 else None))
        super().__init__(parts)


def box(minx, miny, maxx, maxy, ccw=True):
    shell = [(maxx, miny), (maxx, maxy), (minx, maxy), (minx, miny)]
    return Polygon(shell, None, _box=(minx, miny, maxx, maxy))


def linestrings(coords, *a, **k):
    return LineString(coords)


def _apply(f, pts):
    from models import npl

    out = f(npl.ndarray([[x, y] for x, y in pts], (len(pts), 2), None))
    if hasattr(out, "tolist"):
        out = out.tolist()
    return [(_r[0], _r[1]) for _r in out]


def transform(geometry, transformation, include_z=False):
    return geometry._map(transformation)


def _outside(name):
    def fn(*a, **k):
        raise OutsideModel("shapely.%s is computed by GEOS" % name)

    fn.__name__ = name
    return fn


ABSTRACT_GEOS = False  # set by a harness that only reasons about BOUNDS of GEOS results (props/c11.py)


class _BoundsOnly(Polygon):
    """stands for 'whatever GEOS returned', of which only the bounding rectangle is stated"""


ROUND_CAP_REACH = 0.98  # an 8-segment round cap reaches at least cos(pi/16) = 0.9808 of the radius everywhere
MITRE_LIMIT = 5.0


def _growth(distance):
    """a solver-chosen amount in [0.98 d, 5 d]: how far GEOS's buffer pushes one side of the bounding box"""
    from vf.h import MODEL

    if not MODEL:
        raise OutsideModel("abstract GEOS used outside the analysis")
    from crosshair.core import proxy_for_type
    from crosshair.statespace import context_statespace
    from crosshair.tracers import NoTracing
    from crosshair.util import IgnoreAttempt

    with NoTracing():
        space = context_statespace()
        k = proxy_for_type(float, "geos_growth" + space.uniq(), allow_subtypes=False)
    if not (ROUND_CAP_REACH * distance <= k and k <= MITRE_LIMIT * distance):
        raise IgnoreAttempt("growth outside the contract")
    return k


def buffer(geometry, distance, **kw):
    """bounds-level contract (only with ABSTRACT_GEOS): every side of the bounding box of buffer(g, d) lies
    between 0.98 d (polygonal round caps are inscribed in the circle) and 5 d (mitre limit) outside the bounding
    box of g; the amounts are chosen by the solver, so every behaviour GEOS may show is covered"""
    if not ABSTRACT_GEOS:
        raise OutsideModel("shapely.buffer is computed by GEOS")
    x0, y0, x1, y1 = geometry.bounds
    r = box(x0 - _growth(distance), y0 - _growth(distance), x1 + _growth(distance), y1 + _growth(distance))
    r.__class__ = _BoundsOnly
    return r


def clip_by_rect(geometry, xmin, ymin, xmax, ymax):
    if not (ABSTRACT_GEOS and isinstance(geometry, Polygon) and geometry.rect() is not None):
        raise OutsideModel("shapely.clip_by_rect is computed by GEOS")
    x0, y0, x1, y1 = geometry.rect()
    r = box(_sym.fmax(x0, xmin), _sym.fmax(y0, ymin), _sym.fmin(x1, xmax), _sym.fmin(y1, ymax))
    r.__class__ = _BoundsOnly
    return r


def to_geojson(geometry, **kw):
    if not (ABSTRACT_GEOS and isinstance(geometry, Polygon) and geometry.rect() is not None):
        raise OutsideModel("shapely.to_geojson of a GEOS result")
    x0, y0, x1, y1 = geometry.rect()
    return {"type": "Polygon", "coordinates": [[[x0, y0], [x1, y0], [x1, y1], [x0, y1], [x0, y0]]]}


point_on_surface = _outside("point_on_surface")
centroid = _outside("centroid")
intersection = _outside("intersection")


class GeometryCollection(_Multi):
    """heterogeneous collection: only a container of its parts (bounds, mapping, burning part by part)"""

    geom_type = "GeometryCollection"

    def __init__(self, geoms=None):
        super().__init__(list(geoms or []))


def _module(name, **attrs):
    m = types.ModuleType(name)
    m.__dict__.update(attrs)
    return m


_common = dict(
    Geometry=Geometry,
    Point=Point,
    LineString=LineString,
    Polygon=Polygon,
    MultiPoint=MultiPoint,
    MultiLineString=MultiLineString,
    MultiPolygon=MultiPolygon,
    GeometryCollection=GeometryCollection,
    box=box,
)
geometry = _module("shapely.geometry", **_common)
geometry.base = _module("shapely.geometry.base", BaseGeometry=Geometry)
_plotting = _module(
    "shapely.plotting", plot_line=_outside("plot_line"), plot_points=_outside("plot_points"),
    plot_polygon=_outside("plot_polygon"),
)
shapely = _module(
    "shapely",
    geometry=geometry,
    plotting=_plotting,
    linestrings=linestrings,
    transform=transform,
    buffer=buffer,
    clip_by_rect=clip_by_rect,
    point_on_surface=point_on_surface,
    to_geojson=to_geojson,
    centroid=centroid,
    intersection=intersection,
    **_common,
)

FAKES = {
    "shapely": shapely,
    "shapely.geometry": geometry,
    "shapely.geometry.base": geometry.base,
    "shapely.plotting": _plotting,
}
