"""Contract model of the sklearn.metrics functions soundevent delegates to.

accuracy_score, balanced_accuracy_score and top_k_accuracy_score follow their
documented definitions (top-k ties broken as sklearn's stable argsort does:
among equal scores the higher class index ranks first).  average_precision_score,
jaccard_score and log_loss are UNINTERPRETED: each call returns an opaque
record of its arguments, so only the plumbing (which arrays go in) can be
concluded, never the numeric value.  sklearn's own input validation (e.g. the
binary special case for one-tag vocabularies) is not modelled."""

from __future__ import annotations

import types

from models import npl


def _lst(a):
    if isinstance(a, npl.ndarray):
        return a.tolist()
    return [x.tolist() if isinstance(x, npl.ndarray) else x for x in a]


def accuracy_score(y_true, y_pred, normalize=True, sample_weight=None):
    t, p = _lst(y_true), _lst(y_pred)
    hits = 0
    for a, b in zip(t, p):
        if a == b:
            hits += 1
    return hits / len(t)


def balanced_accuracy_score(y_true, y_pred, sample_weight=None, adjusted=False):
    t, p = _lst(y_true), _lst(y_pred)
    classes = sorted(set(t))
    total = 0
    for c in classes:
        n = sum(1 for a in t if a == c)
        tp = sum(1 for a, b in zip(t, p) if a == c and b == c)
        total = total + tp / n
    return total / len(classes)


def top_k_accuracy_score(y_true, y_score, k=2, normalize=True, sample_weight=None, labels=None):
    t, s = _lst(y_true), _lst(y_score)
    hits = 0
    for a, row in zip(t, s):
        idx = labels.index(a) if labels is not None else a
        # rank of the true class: classes with a strictly higher score, or an equal score and a higher index
        ahead = 0
        for j, v in enumerate(row):
            if j == idx:
                continue
            if v > row[idx] or (v == row[idx] and j > idx):
                ahead += 1
        if ahead < k:
            hits += 1
    return hits / len(t) if normalize else hits


class Opaque(float):
    """value of an uninterpreted metric: a float (0.5, so that it passes range
    constraints) that remembers what it was computed from"""

    def __new__(cls, name, args):
        self = float.__new__(cls, 0.5)
        self.name = name
        self.args = args
        return self

    def __neg__(self):
        return Opaque("neg", self)

    def __repr__(self):
        return "Opaque(%s)" % self.name


def _plain(x):
    if isinstance(x, npl.ndarray):
        return ("array", x.shape, x.tolist())
    if isinstance(x, (list, tuple)):
        return [_plain(e) for e in x]
    return x


def average_precision_score(y_true, y_score, average="macro", **kw):
    if len(y_true) == 0:
        # sklearn's input validation (check_array: at least one sample)
        raise ValueError("Found array with 0 sample(s) while a minimum of 1 is required.")
    return Opaque("average_precision_score", dict(y_true=_plain(y_true), y_score=_plain(y_score), average=average))


def jaccard_score(y_true, y_pred, labels=None, average="binary", **kw):
    return Opaque("jaccard_score", dict(y_true=_plain(y_true), y_pred=_plain(y_pred), labels=_plain(labels), average=average))


def log_loss(y_true, y_pred, normalize=True, **kw):
    return Opaque("log_loss", dict(y_true=_plain(y_true), y_pred=_plain(y_pred), normalize=normalize))


metrics = types.ModuleType("sklearn.metrics")
for _n in ("accuracy_score", "balanced_accuracy_score", "top_k_accuracy_score", "average_precision_score",
           "jaccard_score", "log_loss"):
    setattr(metrics, _n, globals()[_n])
